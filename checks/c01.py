"""C01 - XML save/load is lossless and conforms to odML format 1.1.

Input engine: every document of the layers in checks/rt.py x every writer entry x every
compatible reader entry; round-trip law on snapshots (text trimmed), vocabulary check on the
written text with plain lxml against a hard-coded vocabulary, strict reader without warnings,
styled variants through odml.load, and a foreign emitter (gen/xmltext.py) whose files must load
to the document they describe."""
import os

from gen import docs, xmltext
from mc import env, par, report, snapshot
from ref import vocabulary
from checks import rt

PROP = "C01"
LEVEL = "model_checking"
RULE = ("all value lists of length <=L over the atoms of every dtype, every optional attribute x every text atom, every "
        "cardinality normal form, all ordered forests with <=N Sections, all pairs of deviations on 3-node trees; each "
        "x 7 writer entries x compatible reader entries (22 round trips) + foreign emitter; non-trivial = a document "
        "that carries at least one Property value or optional attribute")
WATCHDOG_S = 30

TEMPLATE = "<xsl:template match=\"odML\"><b>custom</b></xsl:template>"
WRITERS = [("str(XMLWriter)", "string"), ("ODMLWriter.to_string", "string"),
           ("XMLWriter.write_file", "file"), ("ODMLWriter.write_file", "file"), ("odml.save", "file"),
           ("XMLWriter.write_file:local_style", "styled"), ("XMLWriter.write_file:custom_template", "styled"),
           ("odml.save:local_style", "styled")]
READERS = {"string": ["XMLReader.from_string:strict", "XMLReader.from_string:lenient", "ODMLReader.from_string",
                      "XMLReader.from_string:strict:reader-used-twice", "XMLReader.from_string:lenient:reader-used-twice"],
           "file": ["XMLReader.from_file:strict", "XMLReader.from_file:lenient", "ODMLReader.from_file", "odml.load",
                    "XMLReader.from_file-then-from_string:strict:reader-used-twice"],
           "styled": ["odml.load", "XMLReader.from_file:lenient"]}


def write(doc, writer, path):
    import odml
    from odml.tools.xmlparser import XMLWriter
    from odml.tools.odmlparser import ODMLWriter
    if writer == "str(XMLWriter)":
        return str(XMLWriter(doc))
    if writer == "ODMLWriter.to_string":
        return ODMLWriter("XML").to_string(doc)
    if writer == "XMLWriter.write_file":
        XMLWriter(doc).write_file(path)
    elif writer == "ODMLWriter.write_file":
        ODMLWriter("XML").write_file(doc, path)
    elif writer == "odml.save":
        odml.save(doc, path)
    elif writer == "XMLWriter.write_file:local_style":
        XMLWriter(doc).write_file(path, local_style=True)
    elif writer == "XMLWriter.write_file:custom_template":
        XMLWriter(doc).write_file(path, custom_template=TEMPLATE)
    elif writer == "odml.save:local_style":
        odml.save(doc, path, local_style=True)
    with open(path, encoding="utf-8") as fh:
        return fh.read()


def read(reader, text, path):
    """returns (document, warnings or None)"""
    import odml
    from odml.tools.xmlparser import XMLReader
    from odml.tools.odmlparser import ODMLReader
    if reader.endswith(":reader-used-twice"):
        # one reader object asked twice (the same text again, as after an edit-save-load cycle): the second answer and
        # the warnings it added are judged
        r = XMLReader(ignore_errors=":lenient" in reader, show_warnings=False)
        if "from_file" in reader:
            r.from_file(path)
        else:
            r.from_string(text)
        n = len(r.warnings)
        d = r.from_string(text)
        return d, list(r.warnings)[n:]
    if reader.startswith("XMLReader"):
        r = XMLReader(ignore_errors=reader.endswith("lenient"), show_warnings=False)
        d = r.from_string(text) if "from_string" in reader else r.from_file(path)
        return d, list(r.warnings)
    if reader == "ODMLReader.from_string":
        return ODMLReader("XML", show_warnings=False).from_string(text), None
    if reader == "ODMLReader.from_file":
        return ODMLReader("XML", show_warnings=False).from_file(path), None
    if reader == "odml.load":
        return odml.load(path, "xml", show_warnings=False), None
    raise env.HarnessError(reader)


def gen_cases(tier):
    return list(rt.all_cases(tier))


def csv_neutral(spec):
    def ok(v):
        if isinstance(v, str):
            return v != "" and v == v.strip() and not any(c in v for c in ',"[]\n\r\t;()')
        return True
    for s in _all_secs(spec):
        for p in s["properties"]:
            for v in p.get("values", []):
                if isinstance(v, list):
                    if not all(ok(x) for x in v):
                        return False
                elif not ok(v):
                    return False
    return True


def _all_secs(spec):
    out = []

    def rec(lst):
        for s in lst:
            out.append(s)
            rec(s["sections"])
    rec(spec["sections"])
    return out


def run_case(case):
    scratch = env.fresh_dir("c01")
    try:
        return _run(case, scratch)
    finally:
        env.drop_dir(scratch)


def _run(case, scratch):
    import lxml.etree as ET
    fails = []
    tags = case["tags"]

    def fail(clause, entry, observed=None, field=None, explain=""):
        fails.append(report.failure("xml-roundtrip", {
            "clause": clause, "entry": entry, "layer": case["layer"], "field": field,
            "dtype": tags.get("dtype"), "atoms": rt.features(tags.get("atoms", [])), "n_values": tags.get("n_values"),
            "attr": tags.get("attr"),
            "element": tags.get("element"), "cardinality": tags.get("cardinality"),
            "deviations": sorted(set(d.split(":")[0] for d in tags.get("deviations", []))) or None,
            "where": tags.get("where")}, case, observed=observed,
            explain=explain))
    try:
        doc = docs.build(case["spec"])
    except Exception as exc:
        return {"failures": [], "outcomes": ["not-buildable:" + type(exc).__name__], "nontrivial": 0, "execs": 0}
    s0 = snapshot.snap(doc)
    want = rt.normalise_trim(s0)
    execs = 0
    outcomes = set()
    for writer, kind in WRITERS:
        path = os.path.join(scratch, "doc.xml")
        if os.path.exists(path):
            os.unlink(path)
        try:
            text = write(doc, writer, path)
            execs += 1
        except Exception as exc:
            outcomes.add("writer-raises")
            if case["layer"] != "U":
                fail("writer-raises-for-a-representable-document", writer, "%s: %s" % (type(exc).__name__, str(exc)[:160]))
            continue
        if case["layer"] == "U":
            fail("unrepresentable-document-was-written", writer, text[-200:])
            continue
        if snapshot.snap(doc) != s0:
            fail("writing-changed-the-document", writer, snapshot.short(snapshot.diff(s0, snapshot.snap(doc))))
        # vocabulary, independently of the library's reader
        try:
            root = ET.fromstring(text.encode("utf-8"))
            viol = vocabulary.xml_violations(root)
            if viol:
                fail("written-xml-outside-the-1.1-vocabulary", writer, viol[:4])
            if kind != "styled" and any(not isinstance(c.tag, str) or c.tag.startswith("{") for c in root.iter()
                                        if c is not root and isinstance(c.tag, str) and c.tag.startswith("{")):
                fail("written-xml-outside-the-1.1-vocabulary", writer, "foreign element in an unstyled file")
        except ET.XMLSyntaxError as exc:
            fail("written-text-is-not-well-formed-xml", writer, str(exc)[:160])
            continue
        for reader in READERS[kind]:
            entry = writer + " -> " + reader
            try:
                back, warns = read(reader, text, path)
                execs += 1
            except Exception as exc:
                fail("reader-raises-on-written-file", entry, "%s: %s" % (type(exc).__name__, str(exc)[:160]))
                continue
            got = rt.normalise_trim(snapshot.snap(back))
            if got != want:
                df = snapshot.diff(want, got)
                fail("loaded-document-differs", entry, snapshot.short(df), field=rt.field_of(df[0]))
            if ":strict" in reader and warns:
                fail("strict-reader-warns-on-written-file", entry, warns[:2])
        outcomes.add("round-trip")
    # foreign emitter
    if case["layer"] in ("T", "K", "A", "V", "M", "N") and csv_neutral(case["spec"]):
        from odml.tools.xmlparser import XMLReader
        spec = rt.with_ids(case["spec"])
        try:
            described = rt.normalise_trim(snapshot.snap(docs.build(spec)))
        except Exception:
            described = None
        if described is not None:
            for variant in ("compact", "padded", "numeric-refs"):
                text = xmltext.doc_xml(spec, variant=variant)
                fpath = os.path.join(scratch, "foreign.xml")
                with open(fpath, "w", encoding="utf-8") as fh:
                    fh.write(text)
                for strict in (True, False):
                    entry = "foreign:%s -> XMLReader.from_file:%s" % (variant, "strict" if strict else "lenient")
                    try:
                        r = XMLReader(ignore_errors=not strict, show_warnings=False)
                        back = r.from_file(fpath)
                        execs += 1
                    except Exception as exc:
                        fail("reader-raises-on-foreign-file", entry, "%s: %s" % (type(exc).__name__, str(exc)[:160]))
                        continue
                    got = rt.normalise_trim(snapshot.snap(back))
                    if got != described:
                        df = snapshot.diff(described, got)
                        fail("foreign-file-loads-to-a-different-document", entry, snapshot.short(df),
                             field=rt.field_of(df[0]))
            outcomes.add("foreign")
    nontrivial = any(s["properties"] or s["attrs"] for s in _all_secs(case["spec"])) or bool(case["spec"]["attrs"])
    return {"failures": fails, "outcomes": sorted(outcomes), "nontrivial": int(nontrivial), "execs": max(execs, 1)}


def check(tier):
    run = report.Run(PROP, tier, LEVEL, RULE, assumptions=[
        "text is compared after trimming surrounding whitespace; a text attribute that is empty after trimming equals unset",
        "documents the public API refuses to build are not part of the quantifier (counted as not-buildable)",
        "links and includes are left to C12; repository URLs are plain text atoms (no network)",
        "the full cross product of layers is not claimed beyond pairs of deviations (triples on one shape, thorough)",
    ])
    cases = gen_cases(tier)
    layers = {}
    for c in cases:
        layers[c["layer"]] = layers.get(c["layer"], 0) + 1
    for k, v in sorted(layers.items()):
        run.layer(k, documents=v)
    run.bounds = {"value_list_length": 2 if tier == "quick" else 3, "max_sections": 4 if tier == "quick" else 5,
                  "deviations": 2 if tier == "quick" else 3, "writer_entries": len(WRITERS),
                  "round_trips_per_document": sum(len(READERS[k]) for _, k in WRITERS)}
    par.run_cases(run, "checks.c01", cases, nchunks=par.JOBS * 16)
    return run.finish(reproduce=lambda f: replay(f))


def replay(rec):
    env.reset_globals(env.SEED)
    return run_case(rec["case"])["failures"]
