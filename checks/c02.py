"""C02 - JSON and YAML save/load are lossless and keep the 1.1 layout.

Same document layers as C01 (plus YAML/JSON look-alike atoms and falsy attribute values) x
{JSON, YAML} x {to_string/from_string, write_file/from_file, odml.save/odml.load,
DictWriter.to_dict -> DictReader.to_odml strict/lenient}; exact snapshot equality, layout check
with stock json / yaml.safe_load against a hard-coded vocabulary, a foreign dictionary built from
the snapshot independently, and cross-format agreement."""
import json
import os

from gen import docs
from mc import env, par, report, snapshot
from ref import vocabulary
from checks import rt

PROP = "C02"
LEVEL = "model_checking"
RULE = ("document layers of checks/rt.py incl. look-alike atoms (yes, null, ~, 1e3, dates, ...) x {JSON, YAML} x 4 entry "
        "pairs + direct dictionary route strict/lenient + foreign dictionary in 3 renderings; non-trivial = a document "
        "that carries at least one Property value or optional attribute")
WATCHDOG_S = 60

ENTRIES = ["to_string->from_string", "write_file->from_file", "odml.save->odml.load"]


def gen_cases(tier):
    cases = list(rt.all_cases(tier, lookalikes=True))
    # falsy attribute values
    for kind, attr, val in (("property", "unit", "0"), ("document", "version", "0"), ("section", "definition", "0"),
                            ("property", "value_origin", "False"), ("document", "author", "None")):
        cases.append({"layer": "A", "spec": rt.attr_doc(kind, attr, val),
                      "tags": {"element": kind, "attr": attr, "atoms": [repr(val)]}})
    return cases


def _all_secs(spec):
    out = []

    def rec(lst):
        for s in lst:
            out.append(s)
            rec(s["sections"])
    rec(spec["sections"])
    return out


# --------------------------------------------------------------------------- foreign dictionary

def _plain(atom):
    """snapshot atom -> plain python value a foreign tool would put into the dictionary"""
    import ast
    import datetime
    if atom is None:
        return None
    t = atom[0]
    if t in ("list", "tuple"):
        return [_plain(x) for x in atom[1:]]
    if t in ("date", "time", "datetime"):
        v = eval(atom[1], {"datetime": datetime})
        return str(v) if t != "date" else v.isoformat()
    return ast.literal_eval(atom[1])


def foreign_dict(snap):
    """The odML 1.1 dictionary of a document snapshot, built without the library."""
    def prop(p):
        d = {"name": _plain(p["name"]), "id": _plain(p["id"])}
        dtype = _plain(p["dtype"])
        vals = [_plain(v) for v in p["values"]]
        if dtype and dtype.endswith("-tuple"):
            texts = ["(" + ";".join(v) + ")" for v in vals]
            if any("," in t or '"' in t or "\n" in t for t in texts):
                d["value"] = texts          # the bracketed one-string form separates tuples by commas: a list of tuple texts
            else:
                d["value"] = "[" + ",".join(texts) + "]" if vals else []
        else:
            d["value"] = vals
        if dtype:
            d["type"] = dtype
        for k, key in (("unit", "unit"), ("uncertainty", "uncertainty"), ("definition", "definition"),
                       ("reference", "reference"), ("dependency", "dependency"), ("dependency_value", "dependencyvalue"),
                       ("value_origin", "value_origin")):
            v = _plain(p[k])
            if v is not None:
                d[key] = v
        c = _plain(p["val_cardinality"])
        if c is not None:
            d["val_cardinality"] = list(c)
        return d

    def sec(s):
        d = {"type": _plain(s["type"]), "name": _plain(s["name"]), "id": _plain(s["id"])}
        for k in ("definition", "reference", "repository", "link", "include"):
            v = _plain(s[k])
            if v is not None:
                d[k] = v
        for k in ("sec_cardinality", "prop_cardinality"):
            c = _plain(s[k])
            if c is not None:
                d[k] = list(c)
        d["properties"] = [prop(p) for p in s["properties"]]
        d["sections"] = [sec(c) for c in s["sections"]]
        return d
    doc = {"id": _plain(snap["id"]), "sections": [sec(s) for s in snap["sections"]]}
    for k in ("author", "version", "repository"):
        v = _plain(snap[k])
        if v is not None:
            doc[k] = v
    if snap["date"] is not None:
        doc["date"] = _plain(snap["date"])
    return {"odml-version": "1.1", "Document": doc}


# --------------------------------------------------------------------------- the check

def run_case(case):
    scratch = env.fresh_dir("c02")
    try:
        return _run(case, scratch)
    finally:
        env.drop_dir(scratch)


def _run(case, scratch):
    import yaml
    import odml
    from odml.tools.odmlparser import ODMLWriter, ODMLReader
    from odml.tools.dict_parser import DictWriter, DictReader
    from odml.tools.xmlparser import XMLWriter, XMLReader
    fails = []
    tags = case["tags"]

    def fail(clause, entry, observed=None, field=None, explain=""):
        fails.append(report.failure("dict-roundtrip", {
            "clause": clause, "entry": entry, "layer": case["layer"], "field": field,
            "dtype": tags.get("dtype"), "atoms": rt.features(tags.get("atoms", [])), "n_values": tags.get("n_values"),
            "attr": tags.get("attr"), "element": tags.get("element"), "cardinality": tags.get("cardinality"),
            "deviations": sorted(set(d.split(":")[0] for d in tags.get("deviations", []))) or None,
            "where": tags.get("where")}, case, observed=observed, explain=explain))
    try:
        doc = docs.build(case["spec"])
    except Exception as exc:
        return {"failures": [], "outcomes": ["not-buildable:" + type(exc).__name__], "nontrivial": 0, "execs": 0}
    raw = snapshot.snap(doc)
    want = rt.normalise_empty(raw)
    execs = 0
    loaded = {}
    for fmt in ("JSON", "YAML"):
        path = os.path.join(scratch, "doc." + fmt.lower())
        for entry in ENTRIES:
            label = "%s:%s" % (fmt, entry)
            if os.path.exists(path):
                os.unlink(path)
            try:
                if entry == "to_string->from_string":
                    text = ODMLWriter(fmt).to_string(doc)
                elif entry == "write_file->from_file":
                    ODMLWriter(fmt).write_file(doc, path)
                    with open(path) as fh:
                        text = fh.read()
                else:
                    odml.save(doc, path, fmt)
                    with open(path) as fh:
                        text = fh.read()
                execs += 1
            except Exception as exc:
                fail("writer-raises-for-a-representable-document", label, "%s: %s" % (type(exc).__name__, str(exc)[:160]))
                continue
            if snapshot.snap(doc) != raw:
                fail("writing-changed-the-document", label)
            # layout with the stock parsers
            try:
                data = json.loads(text) if fmt == "JSON" else yaml.safe_load(text)
                viol = vocabulary.dict_violations(data)
                if viol:
                    fail("written-text-outside-the-1.1-layout", label, viol[:4])
            except Exception as exc:
                fail("written-text-not-readable-by-a-stock-parser", label, "%s: %s" % (type(exc).__name__, str(exc)[:160]))
            try:
                if entry == "to_string->from_string":
                    back = ODMLReader(fmt, show_warnings=False).from_string(text)
                elif entry == "write_file->from_file":
                    back = ODMLReader(fmt, show_warnings=False).from_file(path)
                else:
                    back = odml.load(path, fmt, show_warnings=False)
                execs += 1
            except Exception as exc:
                fail("reader-raises-on-written-file", label, "%s: %s" % (type(exc).__name__, str(exc)[:160]))
                continue
            got = rt.normalise_empty(snapshot.snap(back))
            loaded[fmt] = got
            if got != want:
                df = snapshot.diff(want, got)
                fail("loaded-document-differs", label, snapshot.short(df), field=rt.field_of(df[0]))
    # the dictionary route, strict and lenient
    try:
        data = {"Document": DictWriter().to_dict(doc), "odml-version": "1.1"}
        for lenient in (False, True):
            label = "to_dict->to_odml:%s" % ("lenient" if lenient else "strict")
            r = DictReader(show_warnings=False, ignore_errors=lenient)
            back = r.to_odml(json.loads(json.dumps(data, default=str)) if False else data)
            execs += 1
            got = rt.normalise_empty(snapshot.snap(back))
            if got != want:
                df = snapshot.diff(want, got)
                fail("loaded-document-differs", label, snapshot.short(df), field=rt.field_of(df[0]))
            if r.warnings:
                fail("reader-warns-on-written-dictionary", label, r.warnings[:2])
    except Exception as exc:
        fail("dictionary-route-raises", "to_dict->to_odml", "%s: %s" % (type(exc).__name__, str(exc)[:160]))
    # a dictionary / text produced by another tool
    try:
        fd = foreign_dict(raw)
    except Exception as exc:
        raise env.HarnessError("foreign dictionary: %s" % exc)
    renderings = [("json-compact", "JSON", json.dumps(fd, sort_keys=True)),
                  ("json-without-empty-lists", "JSON", json.dumps(_drop_empty_lists(fd))),
                  ("yaml-without-empty-lists", "YAML", yaml.safe_dump(_drop_empty_lists(fd), default_flow_style=False)),
                  ("yaml-flow", "YAML", yaml.safe_dump(fd, default_flow_style=True, sort_keys=True)),
                  ("yaml-block-reversed", "YAML", yaml.safe_dump(_reversed_keys(fd), default_flow_style=False, sort_keys=False))]
    for name, fmt, text in renderings:
        label = "foreign:%s" % name
        try:
            back = ODMLReader(fmt, show_warnings=False).from_string(text)
            execs += 1
        except Exception as exc:
            fail("reader-raises-on-foreign-file", label, "%s: %s" % (type(exc).__name__, str(exc)[:160]))
            continue
        got = rt.normalise_empty(snapshot.snap(back))
        if got != want:
            df = snapshot.diff(want, got)
            fail("foreign-file-loads-to-a-different-document", label, snapshot.short(df), field=rt.field_of(df[0]))
    # cross-format agreement
    if "JSON" in loaded and "YAML" in loaded and loaded["JSON"] != loaded["YAML"]:
        df = snapshot.diff(loaded["JSON"], loaded["YAML"])
        fail("json-and-yaml-load-to-different-documents", "JSON vs YAML", snapshot.short(df), field=rt.field_of(df[0]))
    if "JSON" in loaded and case["layer"] != "U":
        try:
            xml_back = XMLReader(show_warnings=False).from_string(str(XMLWriter(doc)))
            a, b = rt.normalise_trim(loaded["JSON"]), rt.normalise_trim(snapshot.snap(xml_back))
            execs += 1
            if a != b:
                df = snapshot.diff(a, b)
                fail("json-and-xml-load-to-different-documents", "JSON vs XML", snapshot.short(df), field=rt.field_of(df[0]))
        except Exception:
            pass          # C01's subject
    nontrivial = any(s["properties"] or s["attrs"] for s in _all_secs(case["spec"])) or bool(case["spec"]["attrs"])
    return {"failures": fails, "outcomes": ["round-trip"], "nontrivial": int(nontrivial), "execs": max(execs, 1)}


def _drop_empty_lists(d):
    """Another tool need not write 'sections: []' / 'properties: []' for objects without children."""
    if isinstance(d, dict):
        return {k: _drop_empty_lists(v) for k, v in d.items() if not (k in ("sections", "properties") and v == [])}
    if isinstance(d, list):
        return [_drop_empty_lists(x) for x in d]
    return d


def _reversed_keys(d):
    if isinstance(d, dict):
        return {k: _reversed_keys(d[k]) for k in reversed(list(d))}
    if isinstance(d, list):
        return [_reversed_keys(x) for x in d]
    return d


def check(tier):
    run = report.Run(PROP, tier, LEVEL, RULE, assumptions=[
        "documents the public API refuses to build are not part of the quantifier (counted as not-buildable)",
        "links and includes are left to C12; repository URLs are plain text atoms (no network)",
        "the full cross product of layers is not claimed beyond pairs of deviations (triples on one shape, thorough)",
    ])
    cases = gen_cases(tier)
    layers = {}
    for c in cases:
        layers[c["layer"]] = layers.get(c["layer"], 0) + 1
    for k, v in sorted(layers.items()):
        run.layer(k, documents=v)
    run.bounds = {"value_list_length": 2 if tier == "quick" else 3, "max_sections": 4 if tier == "quick" else 5,
                  "deviations": 2 if tier == "quick" else 3, "formats": 2, "entry_pairs": len(ENTRIES) + 2,
                  "foreign_renderings": 5}
    par.run_cases(run, "checks.c02", cases, nchunks=par.JOBS * 16)
    return run.finish(reproduce=lambda f: replay(f))


def replay(rec):
    env.reset_globals(env.SEED)
    return run_case(rec["case"])["failures"]
