"""C03 - a document is always a well-formed tree, whatever editing history produced it.

History engine: BFS over public editing operations on a pool of real objects; the invariant
is evaluated by the independent walker of ref/tree.py after EVERY transition, whether the
operation returned or raised."""
from checks import treeops as OPS  # noqa: F401  (used by mc.hist)
from mc import hist, report
from ref import tree

PROP = "C03"
CHECK = "tree-invariant"
LEVEL = "model_checking"
RULE = ("explicit-state BFS over histories of public editing operations on a pool of 9+ real "
        "objects (2 Documents, 4 Sections named a,b,a,b, 3 Properties named p,p,q) from two start "
        "states; a transition is non-trivial when it changed the canonical pool state or raised")


def alphabet(pool, cfg, history):
    created = sum(1 for op in history if op[0] in (
        "create_section", "create_property", "new_section", "new_property", "append_clone",
        "new_linked"))
    return OPS.alphabet(pool, cfg["level"], creations_left=2 - created)


def pre_observe(pool, op, cfg):
    return None


def oracle(pre, pool, op, outcome, cfg):
    objs = tree.closure(pool)
    bad = tree.tree_violations(objs)
    if outcome[1] == "<did-not-terminate>":
        bad = [("operation-does-not-terminate", "%r did not terminate" % (op,))] + bad
    if not bad:
        # traversal / path queries must terminate and not raise on a well-formed tree
        for o in objs:
            try:
                o.get_path()
                if hasattr(o, "itersections"):
                    list(o.itersections())
            except Exception as exc:
                bad.append(("path-or-traversal-query-raises", "%s on %s" % (
                    type(exc).__name__, tree._nm(o))))
                break
    seen = set()
    out = []
    for clause, detail in bad:
        if clause in seen:
            continue
        seen.add(clause)
        out.append((clause, detail, True))     # ill-formed states are not expanded
    return out or [(None, None, False)]


PLANS = {
    "quick": [{"level": "full"}, {"level": "full"}],
    "thorough": [{"level": "full"}, {"level": "full"}, {"level": "core"}],
}
CAPS = {"quick": None, "thorough": None}


def check(tier):
    run = report.Run(PROP, tier, LEVEL, RULE, assumptions=[
        "objects are driven through the public API only; ill-formed states are reported once and not expanded",
        "states with equal canonical form (structure by pool index, names, id-equality pattern, values, "
        "link/merge bookkeeping) have equal futures under the alphabet",
    ])
    plan = PLANS[tier]
    run.bounds = {"depth": len(plan), "alphabet_per_level": [c["level"] for c in plan],
                  "object_creating_ops_per_history": 2}
    hist.bfs(run, "checks.c03", [OPS.START_DETACHED, OPS.START_BUILT], plan,
             state_cap=CAPS[tier])
    return run.finish(reproduce=lambda f: replay(f))


def replay(rec):
    """Re-run one recorded transition from scratch, without the explorer."""
    from mc import env
    case = rec["case"]
    env.reset_globals(env.SEED)
    pool = OPS.materialise(case["history"])
    base = OPS.copy_pool(pool)
    try:
        outcome = env.with_watchdog(lambda: OPS.apply_op(pool, case["op"]), 5)
    except env.Timeout:
        outcome = ("raise", "<did-not-terminate>")
    try:
        verdicts = env.with_watchdog(lambda: oracle(None, pool, case["op"], outcome, case["cfg"]), 5)
    except env.Timeout:
        verdicts = [("query-does-not-terminate", "oracle queries did not terminate", True)]
    out = []
    for clause, detail, _ in verdicts:
        if clause is None:
            continue
        out.append(report.failure(CHECK, OPS.describe(base, case["op"], outcome, clause), case,
                                  observed=detail, explain=detail))
    return out
