"""C04 - sibling names stay unique; names and ids are never empty or malformed.

Same history engine, pool and alphabet as C03 (names a,b / p,q are forced to collide) plus
id operations.  States that break the *tree* invariant of C03 are pruned and not judged."""
import uuid

from checks import treeops as OPS  # noqa: F401
from checks import c03
from mc import env, hist, report
from ref import tree

PROP = "C04"
CHECK = "naming-invariant"
LEVEL = "model_checking"
RULE = ("explicit-state BFS over the C03 alphabet plus rename / new_id / constructor-with-id "
        "operations; names drawn from {a,b}/{p,q} so clashes are the common case; non-trivial = "
        "transition that changed the canonical state or raised")

VALID = OPS.VALID_ID
ID_ATOMS = [
    ("none", None), ("valid", VALID), ("upper", VALID.upper()), ("braced", "{%s}" % VALID),
    ("urn", "urn:uuid:" + VALID), ("nodash", VALID.replace("-", "")),
    ("truncated", VALID[:-3]), ("garbage", "zz"), ("empty", ""), ("int", 5),
]
MALFORMED = ("truncated", "garbage", "empty")
ATOM_NAME = {repr(v): n for n, v in ID_ATOMS}


def alphabet(pool, cfg, history):
    ops = c03.alphabet(pool, cfg, history)
    if cfg["level"] == "core":
        return ops
    created = sum(1 for op in history if op[0] in ("new_section", "new_property", "new_document"))
    for x in (OPS.D0, OPS.S0, OPS.S2, OPS.P0):
        for _, v in ID_ATOMS:
            ops.append(["new_id", x, v])
    # the id of a sibling (S0/S1 are siblings in the built start state, P0 sits next to S2), given in upper case
    for x, y in ((OPS.S0, OPS.S1), (OPS.S1, OPS.S0), (OPS.S2, OPS.S0), (OPS.P0, OPS.P1)):
        ops.append(["new_id_of", x, y])
    for x in (OPS.S0, OPS.S1, OPS.P0):
        for nm in (None, ""):
            op = ["rename", x, nm]
            if op not in ops:
                ops.append(op)
    for x in range(9, min(len(pool), 13)):       # objects created by the history: each other's ids
        for y in range(9, min(len(pool), 13)):
            if x != y and OPS.kind(pool[x]) == OPS.kind(pool[y]) and OPS.kind(pool[x]) in "SP":
                ops.append(["new_id_of", x, y])
    for x in range(9, min(len(pool), 13)):       # objects created by the history
        if OPS.kind(pool[x]) in "SP":
            for nm in (None, ""):
                op = ["rename", x, nm]
                if op not in ops:
                    ops.append(op)
    if created < 2:
        for _, v in ID_ATOMS:
            ops.append(["new_section", "a", None, {"oid": v}])
            ops.append(["new_section", None, OPS.D0, {"oid": v}])
            ops.append(["new_property", "p", None, {"oid": v}])
            ops.append(["new_property", None, OPS.S0, {"oid": v}])
            ops.append(["new_document", {"oid": v}])
    return ops


def pre_observe(pool, op, cfg):
    pre = {"n": len(pool)}
    if op[0] in ("new_id", "rename"):
        pre["id"] = pool[op[1]].id
    return pre


def _canonical(oid):
    try:
        return isinstance(oid, str) and str(uuid.UUID(oid)) == oid
    except Exception:
        return False


def oracle(pre, pool, op, outcome, cfg):
    objs = tree.closure(pool)
    if tree.tree_violations(objs, check_queries=False):
        # The tree invariant itself is C03's business and the state is not expanded.  What this operation did to the
        # sibling names is still judged: the pre-state was well-formed (ill-formed states are never expanded), so a
        # child list that now holds one name twice - e.g. one child listed twice - is this property's violation too.
        dup = [(c, d, True) for c, d in tree.naming_violations(objs) if c.startswith("duplicate-sibling-")]
        return dup or [(None, None, True)]
    out = []
    for clause, detail in tree.naming_violations(objs):
        out.append((clause, detail, True))
    name = op[0]
    if name == "new_id":
        atom = ATOM_NAME.get(repr(op[2]))
        now = pool[op[1]].id
        if atom in MALFORMED:
            if outcome[0] == "ok":
                out.append(("new_id-accepts-malformed-id", "new_id(%r) returned, id now %r" % (op[2], now), False))
            elif not env.is_a(outcome[1], "ValueError"):
                out.append(("new_id-rejects-with-wrong-exception", outcome[1], False))
        if outcome[0] != "ok" and now != pre["id"]:
            out.append(("rejected-new_id-changed-the-id", "%r -> %r" % (pre["id"], now), False))
        if outcome[0] == "ok" and atom in ("valid", "upper", "braced", "urn", "nodash") and \
                now != OPS.VALID_ID:
            out.append(("new_id-stores-non-canonical-or-other-id", repr(now), False))
    if name in ("new_section", "new_property", "new_document"):
        kw = (op[3] if len(op) > 3 else {}) if name != "new_document" else op[1]
        parent = None if name == "new_document" else op[2]
        if "oid" in kw:
            atom = ATOM_NAME.get(repr(kw["oid"]))
            if atom in MALFORMED + ("none",) and outcome[0] != "ok" and parent is None:
                out.append(("constructor-refuses-malformed-id", outcome[1], False))
            if outcome[0] == "ok" and atom in ("valid", "upper", "braced", "urn", "nodash") \
                    and len(pool) > pre["n"] and pool[pre["n"]].id != OPS.VALID_ID:
                out.append(("constructor-does-not-keep-valid-id", repr(pool[pre["n"]].id), False))
    if name == "rename" and outcome[0] == "ok" and not op[2]:
        o = pool[op[1]]
        if o.name != o.id:
            out.append(("cleared-name-does-not-fall-back-to-id", "%r vs id %r" % (o.name, o.id), False))
    return out or [(None, None, False)]


# third start state: siblings that share one id (the public API allows it through oid= / keep_id),
# so that "clearing the name falls back to the id" meets a sibling already named like that id
START_SHARED_ID = [["append", OPS.D0, OPS.S0],
                   ["new_section", "x", OPS.D0, {"oid": VALID}], ["new_section", "y", OPS.D0, {"oid": VALID}],
                   ["new_property", "x", OPS.S0, {"oid": VALID}], ["new_property", "y", OPS.S0, {"oid": VALID}]]

# fourth start state: siblings created without a name (each is named like its own id)
START_UNNAMED = [["append", OPS.D0, OPS.S0],
                 ["new_section", None, OPS.D0, {}], ["new_section", None, OPS.D0, {}],
                 ["new_property", None, OPS.S0, {}], ["new_property", None, OPS.S0, {}]]

PLANS = {
    "quick": [{"level": "full"}, {"level": "full"}],
    "thorough": [{"level": "full"}, {"level": "full"}, {"level": "core"}],
}


def check(tier):
    run = report.Run(PROP, tier, LEVEL, RULE, assumptions=[
        "states that violate the C03 tree invariant are not expanded; of the operation that led there only the sibling-name "
        "clause is judged",
        "non-string ids (5) are outside the statement: any outcome that keeps the invariants is accepted",
    ])
    plan = PLANS[tier]
    run.bounds = {"depth": len(plan), "alphabet_per_level": [c["level"] for c in plan],
                  "id_atoms": [n for n, _ in ID_ATOMS]}
    hist.bfs(run, "checks.c04", [OPS.START_DETACHED, OPS.START_BUILT, START_SHARED_ID, START_UNNAMED], plan)
    return run.finish(reproduce=lambda f: replay(f))


def replay(rec):
    from mc import env
    case = rec["case"]
    env.reset_globals(env.SEED)
    pool = OPS.materialise(case["history"])
    base = OPS.copy_pool(pool)
    pre = pre_observe(pool, case["op"], case["cfg"])
    outcome = OPS.apply_op(pool, case["op"])
    out = []
    for clause, detail, _ in oracle(pre, pool, case["op"], outcome, case["cfg"]):
        if clause is None:
            continue
        out.append(report.failure(CHECK, OPS.describe(base, case["op"], outcome, clause), case,
                                  observed=detail, explain=detail))
    return out
