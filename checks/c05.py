"""C05 - Property values always conform to the Property's dtype, in normal form.

History engine on ONE real Property: constructor x every dtype name x every value atom, then every
value-editing operation in any order (depth-bounded BFS).  Oracle: type invariant, atomicity of
refused operations, exception type of refusals, normal-form laws.  Which inputs are convertible
is implementation-defined and never second-guessed."""
import datetime as dt

from checks import propops as OPS  # noqa: F401
from mc import env, hist, report

PROP = "C05"
CHECK = "value-dtype-invariant"
LEVEL = "model_checking"
RULE = ("explicit-state BFS over value/dtype operations on one real Property; states = (dtype, "
        "values with exact Python types); start = every Property(values=atom, dtype=t) that the "
        "constructor accepts; non-trivial = transition that changed (dtype, values) or raised")

STR_TYPES = ("string", "text", "url", "person")


def canonical_dtype(t):
    """The odML type a dtype spelling denotes (canonical lower-case name) or None if invalid."""
    import re
    if t is None:
        return "<unset>"
    if not isinstance(t, str):
        return None
    name = t.lower()          # DType members are str subclasses
    name = {"str": "string", "bool": "boolean"}.get(name, name)
    if name in ("string", "text", "url", "person", "int", "float", "boolean", "date", "time", "datetime"):
        return name
    if re.match(r"^[1-9][0-9]*-tuple$", name):
        return name
    return None


def type_ok(v, cname):
    if cname in STR_TYPES:
        return type(v) is str
    if cname == "int":
        return type(v) is int
    if cname == "float":
        return type(v) is float
    if cname == "boolean":
        return type(v) is bool
    if cname == "date":
        return type(v) is dt.date
    if cname == "time":
        return type(v) is dt.time and v.microsecond == 0
    if cname == "datetime":
        return type(v) is dt.datetime and v.microsecond == 0
    if cname.endswith("-tuple"):
        n = int(cname[:-6])
        return type(v) is list and len(v) == n and all(type(x) is str for x in v)
    return False


def invariant(p):
    """List of (clause, detail) violated by Property p right now."""
    out = []
    cname = canonical_dtype(p.dtype)
    vals = p.values
    if cname is None:
        out.append(("dtype-not-a-valid-odml-type", "dtype %r" % (p.dtype,)))
        return out
    if cname == "<unset>":
        if vals:
            out.append(("values-without-dtype", "dtype None with values %r" % (vals,)))
        return out
    for v in vals:
        if not type_ok(v, cname):
            out.append(("stored-value-not-of-dtype",
                        "dtype %r holds %r (%s)" % (p.dtype, v, type(v).__name__)))
            break
    return out


def normal_form(p):
    from odml import dtypes
    out = []
    cname = canonical_dtype(p.dtype)
    if cname in (None, "<unset>"):
        return out
    before = OPS.observe(p)
    for v in p.values:
        try:
            back = dtypes.get(dtypes.set(v, p.dtype), p.dtype)
        except Exception as exc:
            out.append(("text-roundtrip-of-stored-value-raises", "%r: %s" % (v, type(exc).__name__)))
            break
        same = back == v or (isinstance(v, float) and isinstance(back, float) and v != v and back != back)
        if not same or type(back) is not type(v):
            out.append(("text-roundtrip-changes-stored-value", "%r -> %r" % (v, back)))
            break
    try:
        p.values = p.values
        after = OPS.observe(p)
        if after != before:
            out.append(("reassigning-own-values-changes-them", "%r -> %r" % (before, after)))
    except Exception as exc:
        out.append(("reassigning-own-values-raises", type(exc).__name__))
    return out


VALUE_OPS = ("ctor", "set_values", "append", "extend", "insert", "setitem", "remove", "merge", "reassign")


def alphabet(pool, cfg, history):
    return OPS.alphabet(pool, cfg["level"], history)


def pre_observe(pool, op, cfg):
    return OPS.observe(pool[0])


def oracle(pre, pool, op, outcome, cfg):
    p = pool[0]
    out = []
    name = op[0]
    post = OPS.observe(p)
    if outcome[0] != "ok":
        if post != pre:
            out.append(("refused-operation-changed-values-or-dtype", "%r -> %r" % (pre, post), True))
        exc = outcome[1]
        if name == "set_dtype":
            if canonical_dtype(OPS.dtype_value(op[1])) is not None and not env.is_a(exc, "ValueError"):
                out.append(("dtype-change-refused-with-wrong-exception", exc, False))
        elif name in ("setitem", "insert") and env.is_a(exc, "IndexError"):
            pass
        elif name == "ctor" and canonical_dtype(OPS.dtype_value(op[1])) is None:
            pass
        elif name in VALUE_OPS and not env.is_a(exc, "ValueError"):
            out.append(("refused-with-wrong-exception", exc, False))
    if outcome[0] == "ok" and name in ("ctor", "set_values", "extend"):
        # an accepted list stores every one of its items (None and empty items mean 'no value'): an item that cannot be
        # converted is refused, not dropped
        given = OPS.ATOM[op[2] if name == "ctor" else op[1]]()
        if type(given) is list and given and all(x is not None and x != "" and x != [] and x != {} for x in given):
            stored = len(post[2]) - (len(pre[2]) if name == "extend" else 0)
            if stored < len(given):
                out.append(("accepted-list-lost-items", "%d item(s) given, %d stored: %r" % (len(given), stored, post[2]), True))
    bad = invariant(p)
    for clause, detail in bad:
        out.append((clause, detail, True))
    if not bad and not any(pr for _, _, pr in out):
        for clause, detail in normal_form(p):
            out.append((clause, detail, True))
    return out or [(None, None, False)]


PLANS = {
    "quick": [{"level": "full"}, {"level": "full"}, {"level": "reduced"}],
    "thorough": [{"level": "full"}, {"level": "full"}, {"level": "full"}],
}


def check(tier):
    run = report.Run(PROP, tier, LEVEL, RULE, assumptions=[
        "which inputs are convertible is implementation-defined: the oracle never demands that a "
        "particular input be accepted or refused",
        "value lists are capped at length %d (growing operations are not taken beyond it)" % OPS.VALUE_CAP,
    ])
    plan = PLANS[tier]
    run.bounds = {"depth": len(plan), "alphabet_per_level": [c["level"] for c in plan],
                  "value_atoms": len(OPS.ATOM_NAMES), "dtype_spellings": len(OPS.dtypes_alphabet()),
                  "value_list_cap": OPS.VALUE_CAP}
    hist.bfs(run, "checks.c05", [[]], plan)
    return run.finish(reproduce=lambda f: replay(f))


def replay(rec):
    from mc import env
    case = rec["case"]
    env.reset_globals(env.SEED)
    pool = OPS.materialise(case["history"])
    base = OPS.copy_pool(pool)
    pre = pre_observe(pool, case["op"], case["cfg"])
    outcome = OPS.apply_op(pool, case["op"])
    out = []
    for clause, detail, _ in oracle(pre, pool, case["op"], outcome, case["cfg"]):
        if clause is None:
            continue
        out.append(report.failure(CHECK, OPS.describe(base, case["op"], outcome, clause), case,
                                  observed=detail, explain=detail))
    return out
