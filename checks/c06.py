"""C06 - a refused operation changes nothing.

BFS over the union alphabet (structure, naming/ids, values/dtype, cardinalities, constructors
with parent= and invalid arguments, unresolvable link/include).  BFS provides the failing
pre-states; for EVERY transition whose operation raises, the full observation of every pooled
object (all attributes, child lists by identity) must be identical before and after."""
from checks import treeops as OPS  # noqa: F401
from checks import c03, c04
from mc import hist, par, report
from ref import tree

PROP = "C06"
CHECK = "refused-operation-changes-nothing"
LEVEL = "model_checking"
RULE = ("explicit-state BFS over the union alphabet of C03/C04/C05/C09 operations; every "
        "transition is executed on the real objects; a transition is non-trivial when it changed the "
        "canonical state or raised; the oracle compares full observations around each raising call")

# a Section 'l' with a resolved link to /c and an own Property 'p' (int); /a holds a Property 'p' whose text value cannot
# be converted, so that re-linking 'l' to /a resolves the path but is refused by the merge: the earlier link has to stay
START_RELINK = [["append", OPS.D0, OPS.S0], ["append", OPS.S0, OPS.P1], ["new_section", "c", OPS.D0, {}],
                ["new_property", "r", 9, {}], ["new_linked", "l", "/c", OPS.D0], ["append", 11, OPS.P0]]
BAD_CARD = {"tuple": [2, 1]}
# three sibling Properties, the middle one depending on the first: objects that refer to one another by name, so that a
# refused rename / move / removal has other objects it could half-update
START_DEPENDENT = OPS.START_BUILT + [["new_property", "d", OPS.S0, {"dependency": "p", "dependency_value": "1"}],
                                     ["append", OPS.S0, OPS.P2],
                                     ["new_section", "l", OPS.S1, {"definition": "own", "reference": "own ref"}]]
MISSING_URL = "file:///nonexistent-odml-verif/none.xml#/a"


def alphabet(pool, cfg, history):
    ops = [op for op in c04.alphabet(pool, cfg, history) if _link_in_scope(pool, op)]
    if cfg["level"] == "core":
        return ops
    created = sum(1 for op in history if op[0].startswith("new_") or op[0].startswith("create_"))
    kinds = [OPS.kind(o) for o in pool]
    Ss = [i for i, k in enumerate(kinds) if k == "S"][:4]
    Ps = [i for i, k in enumerate(kinds) if k == "P"][:3]
    for s in Ss:
        for attr in ("sec_cardinality", "prop_cardinality"):
            for v in (BAD_CARD, -1, "abc", {"tuple": [1, 2]}, {"tuple": [1, 2, 3]}):
                ops.append(["set_card", s, attr, v])
        ops.append(["set_include", s, MISSING_URL])
    for p in Ps:
        for v in (BAD_CARD, -1, "abc", {"tuple": [0, 1]}):
            ops.append(["set_card", p, "val_cardinality", v])
        for v in ("x", [1, "x"], [7, 8], "[1,x]"):
            ops.append(["set_values", p, v])
        for v in ("x", 9, 2.5):
            ops.append(["append_value", p, v])
        for t in ("date", "string", "foo", "boolean"):
            ops.append(["set_dtype", p, t])
    if created < 2:
        for y in [OPS.D0, OPS.S0, OPS.S1]:
            ops.append(["new_section", "c", y, {"sec_cardinality": BAD_CARD}])
            ops.append(["new_section", "c", y, {"prop_cardinality": -1}])
            ops.append(["new_section", "c", y, {"link": "/zzz"}])
        for y in [OPS.S0, OPS.S1]:
            ops.append(["new_property", "r", y, {"val_cardinality": BAD_CARD}])
            ops.append(["new_property", "r", y, {"values": "x", "dtype": "int"}])
            ops.append(["new_property", "r", y, {"uncertainty": "abc"}])
        ops.append(["new_document", {"date": "not-a-date"}])
    return ops


def _link_in_scope(pool, op):
    """Links whose target is the linking Section itself, one of its ancestors or one of its
    descendants are outside the documented use of links (cf. C12); resolving them is neither
    required to work nor required to fail, so such operations are left out of this alphabet.
    Unresolvable paths stay in: they must be refused cleanly."""
    from ref import paths
    if op[0] == "set_link" and op[2] is not None:
        x = pool[op[1]]
        tgt = paths.resolve(x, op[2])
        return tgt is None or not paths.related(x, tgt)
    if op[0] == "new_linked":
        y = pool[op[3]]
        if OPS.kind(y) == "P":
            return True
        import odml
        probe = odml.Section(name=op[1], type="t")
        tgt = paths.resolve(probe, op[2], virtual_parent=y)
        return tgt is None or not paths.related(probe, tgt, virtual_parent=y)
    return True


def pre_observe(pool, op, cfg):
    return OPS.full_state(pool)


def oracle(pre, pool, op, outcome, cfg):
    objs = tree.closure(pool)
    ill = bool(tree.tree_violations(objs, check_queries=False))
    if outcome[0] == "ok" or op[0] == "new_linked":
        # new_linked is a composite of three public calls (constructor, append, finalize): it is
        # used to reach resolved-link states and is not judged as one refused operation
        return [(None, None, ill)]
    post = OPS.full_state(pool)
    if post == pre:
        return [(None, None, ill)]
    diffs = OPS.state_diff(pre, post)
    fields = sorted(set(d.split(":")[0].split(".")[-1] if "." in d.split(":")[0] else "pool-grew"
                        for d in diffs))
    return [("changed:" + ",".join(fields), "; ".join(diffs[:6]), True)]


PLANS = {
    "quick": [{"level": "full"}, {"level": "full"}],
    "thorough": [{"level": "full"}, {"level": "full"}, {"level": "core"}],
}


MERGE_CLAUSES = ("failed-merge-changed-destination",)


def run_case(case):
    """Layer 'merges of whole trees': the (destination, source) pairs of the C13 generator - deep trees, conflicts at
    three depths, Properties with values of every inferred type - which the 9-object pool of the BFS cannot hold.  Only
    the clause of this property is judged here: a merge that raises has changed nothing in the destination."""
    from checks import c13
    res = c13.run_case(case)
    res["failures"] = [f for f in res["failures"] if f["desc"].get("clause") in MERGE_CLAUSES]
    raised = any(not o.endswith(":ok") for o in res.get("outcomes", ()))
    res["nontrivial"] = int(raised)
    return res


def check(tier):
    run = report.Run(PROP, tier, LEVEL, RULE + "; plus every (destination, source) pair of the C13 generator whose merge "
                     "raises (non-trivial = the merge raised)", assumptions=[
        "pre-states that violate the C03 tree invariant are not expanded (no operation is judged from a "
        "state another property already forbids)",
        "a failed constructor can only be observed through objects reachable from the pool",
    ])
    plan = PLANS[tier]
    run.bounds = {"depth": len(plan), "alphabet_per_level": [c["level"] for c in plan]}
    hist.bfs(run, "checks.c06", [OPS.START_DETACHED, OPS.START_BUILT, START_DEPENDENT, START_RELINK], plan)
    n_raise = sum(v for k, v in run.outcomes.items() if not k.endswith(":ok"))
    run.extra["raising_transitions_judged"] = n_raise
    from checks import c13
    cases = c13.gen_cases(tier)
    run.layer("merges-of-whole-trees", cases=len(cases))
    par.run_cases(run, "checks.c06", cases, nchunks=par.JOBS * 16)
    return run.finish(reproduce=lambda f: replay(f))


def replay(rec):
    from mc import env
    case = rec["case"]
    env.reset_globals(env.SEED)
    if rec.get("check") == "merge":
        return run_case(case)["failures"]
    pool = OPS.materialise(case["history"])
    base = OPS.copy_pool(pool)
    pre = pre_observe(pool, case["op"], case["cfg"])
    outcome = OPS.apply_op(pool, case["op"])
    out = []
    for clause, detail, _ in oracle(pre, pool, case["op"], outcome, case["cfg"]):
        if clause is None:
            continue
        out.append(report.failure(CHECK, OPS.describe(base, case["op"], outcome, clause), case,
                                  observed=detail, explain=detail))
    return out
