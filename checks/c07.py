"""C07 - save never writes an invalid document and a failed save harms no file.

Fault engine: documents x ways of being invalid x ways serialisation can fail (natural causes and
one injected exception per serialisation call site, first and last call) x formats x entry points
x target states; every combination is executed against the real writers in a scratch directory
whose complete content (names and bytes) is compared before and after."""
import os
import warnings

from gen import docs
from mc import env, par, report, snapshot, fault
from ref import tree, validation as refval

PROP = "C07"
LEVEL = "fault_enumeration"
RULE = ("complete product of document x invalidity x failure cause (natural causes; one injected exception per "
        "serialisation call site at its first and at its last call) x format/options x entry point x target state; "
        "non-trivial = the save raised, or wrote a file that was loaded back and compared")
WATCHDOG_S = 30

RDF_FORMATS = ["xml", "pretty-xml", "trix", "n3", "turtle", "ttl", "ntriples", "nt", "nt11", "trig", "json-ld"]
RDF_EXT = {"xml": ".rdf", "pretty-xml": ".rdf", "trix": ".rdf", "n3": ".n3", "turtle": ".ttl", "ttl": ".ttl",
           "ntriples": ".nt", "nt": ".nt", "nt11": ".nt", "trig": ".trig", "json-ld": ".jsonld"}
BAD = docs.UNREPRESENTABLE


# --------------------------------------------------------------------------- documents

def P(name, values, dtype=None, **attrs):
    return {"name": name, "values": values, "dtype": dtype, "attrs": attrs}


def S(name, typ="t", secs=(), props=(), **attrs):
    return {"name": name, "type": typ, "sections": list(secs), "properties": list(props), "attrs": attrs}


def base_docs():
    return {
        "plain": docs.doc_of([S("s", props=[P("p", ["x"], "string")])], author="me"),
        "deep": docs.doc_of([S("s1", props=[P("i", [1, 2], "int"), P("f", [0.5], "float"), P("b", [True], "boolean"),
                                             P("d", [{"date": "2020-01-02"}], "date"),
                                             P("t", [["1", "2"]], "2-tuple")],
                               secs=[S("s11", secs=[S("s111", props=[P("q", ["a", "b"], "string", unit="mV")])])]),
                             S("s2", "other")], author="me", version="1"),
        "warnings": docs.doc_of([S("s", "n.s.", props=[P("p", ["x"], "string", val_cardinality={"tuple": [2, None]})],
                                   sec_cardinality={"tuple": [1, None]})]),
        # many warnings ahead of whatever error an invalidity knob adds (25 string Properties that look like numbers)
        "noisy": docs.doc_of([S("s", props=[P("n%02d" % i, [str(i)], "string") for i in range(25)])]),
    }


INVALID = ["none", "sec-type-None", "sec-type-empty", "nested-sec-type-None", "dup-id-sections", "dup-id-properties",
           "dup-id-doc-section", "dup-id-nested-section-vs-later-branch", "dup-id-properties-in-two-branches",
           "dup-id-nested-property-vs-later-section", "dup-name-sections", "dup-name-properties"]
NATURAL = ["none", "xml-bad-char-in-value", "xml-bad-char-in-attribute", "xml-bad-char-in-name", "lone-surrogate-in-value",
           "json-unencodable-doc-attr", "json-unencodable-sec-attr", "json-unencodable-prop-attr",
           # causes that lie in the environment of the call, not in the document
           "warnings-are-errors", "ascii-locale-with-non-ascii-text"]


def build_doc(name, invalid, cause):
    import odml
    d = docs.build(base_docs()[name])
    secs = tree.children(d)[0]
    s0 = secs[0]
    p0 = tree.children(s0)[1][0]
    if invalid == "sec-type-None":
        s0.type = None
    elif invalid == "sec-type-empty":
        s0.type = ""
    elif invalid == "nested-sec-type-None":
        n = odml.Section("nested", type="t", parent=s0)
        n.type = None
    elif invalid == "dup-id-sections":
        c = s0.clone(keep_id=True)
        c.name = "copy"
        d.append(c)
    elif invalid == "dup-id-properties":
        q = odml.Property("other", values=["y"], parent=s0)
        q.new_id(p0.id)
    elif invalid == "dup-id-doc-section":
        s0.new_id(d.id)
    elif invalid.startswith("dup-id-nested") or invalid == "dup-id-properties-in-two-branches":
        # the two holders of the id sit in different branches, the first one below the top level
        a = odml.Section("branch_a", type="t", parent=d)
        a1 = odml.Section("inner", type="t", parent=a)
        pa = odml.Property("pa", values=[1], parent=a1)
        b = odml.Section("branch_b", type="t", parent=d)
        b1 = odml.Section("inner", type="t", parent=b)
        pb = odml.Property("pb", values=[1], parent=b1)
        if invalid == "dup-id-nested-section-vs-later-branch":
            b.new_id(a1.id)
        elif invalid == "dup-id-properties-in-two-branches":
            pb.new_id(pa.id)
        else:
            b1.new_id(pa.id)
    elif invalid == "dup-name-sections":
        n = odml.Section("twin", type="t", parent=d)
        n._name = s0.name
    elif invalid == "dup-name-properties":
        q = odml.Property("twin", values=["y"], parent=s0)
        q._name = p0.name
    if cause == "xml-bad-char-in-value":
        odml.Property("badv", values=["ok", BAD], dtype="string", parent=s0)
    elif cause == "xml-bad-char-in-attribute":
        s0.definition = BAD
    elif cause == "xml-bad-char-in-name":
        odml.Section(BAD, type="t", parent=s0)
    elif cause == "lone-surrogate-in-value":
        # text no encoding can hold (an undecodable file name from os.fsdecode, say): fails while the text is encoded
        odml.Property("surr", values=["ok", "bad\udcff"], dtype="string", parent=s0)
    elif cause == "ascii-locale-with-non-ascii-text":
        odml.Property("cafe", values=["caf\u00e9", "\u00b5V"], dtype="string", parent=s0)
        s0.definition = "na\u00efve \u20ac"
    elif cause == "json-unencodable-doc-attr":
        d.author = {1, 2}
    elif cause == "json-unencodable-sec-attr":
        s0.reference = object()
    elif cause == "json-unencodable-prop-attr":
        p0.unit = b"bytes"
    return d


def has_errors(doc):
    must, may, groups = refval.expected(doc)
    return any(k[2] == refval.ERR for k in must) or any(g[2] == refval.ERR for g in groups)


def has_warnings(doc):
    must, may, groups = refval.expected(doc)
    return any(k[2] == refval.WARN for k in must)


# --------------------------------------------------------------------------- entries

# a template text that cannot be encoded: the failure arrives when the rendered text is written, not when it is built
BAD_TEMPLATE = "<xsl:template match=\"odML\"><b>\ud800</b></xsl:template>"


def entries():
    """(entry, format label, options)"""
    out = []
    for entry in ("odml.save", "ODMLWriter.write_file"):
        out.append((entry, "XML", {}))
        out.append((entry, "XML", {"local_style": True}))
        out.append((entry, "XML", {"custom_template": "<xsl:template match=\"odML\"><b>x</b></xsl:template>"}))
        out.append((entry, "XML", {"custom_template": "@unencodable"}))
        out.append((entry, "JSON", {}))
        out.append((entry, "YAML", {}))
        out.append((entry, "RDF", {}))
        for f in RDF_FORMATS + ["no-such-format"]:
            out.append((entry, "RDF", {"rdf_format": f}))
    # one writer object used for two saves (an application that saves periodically): the second save is judged
    for fmt in ("XML", "JSON", "YAML", "RDF"):
        out.append(("ODMLWriter.write_file:writer-used-twice", fmt, {}))
    out.append(("XMLWriter.write_file", "XML", {}))
    out.append(("XMLWriter.write_file", "XML", {"local_style": True}))
    out.append(("XMLWriter.write_file", "XML", {"custom_template": "<xsl:template match=\"odML\"><b>x</b></xsl:template>"}))
    out.append(("XMLWriter.write_file", "XML", {"custom_template": "@unencodable"}))
    for f in RDF_FORMATS + ["no-such-format"]:
        out.append(("RDFWriter.write_file", "RDF", {"rdf_format": f}))
    return out


def call_entry(entry, fmt, opts, doc, path):
    import odml
    from odml.tools.odmlparser import ODMLWriter
    from odml.tools.xmlparser import XMLWriter
    from odml.tools.rdf_converter import RDFWriter
    opts = {k: (BAD_TEMPLATE if v == "@unencodable" else v) for k, v in opts.items()}
    if entry == "odml.save":
        return odml.save(doc, path, fmt, **opts)
    if entry == "ODMLWriter.write_file":
        return ODMLWriter(fmt).write_file(doc, path, **opts)
    if entry == "ODMLWriter.write_file:writer-used-twice":
        writer = ODMLWriter(fmt)
        side = os.path.join(os.path.dirname(os.path.dirname(path)), "first-save" + os.path.splitext(path)[1])
        try:
            with warnings.catch_warnings():
                warnings.simplefilter("ignore")
                writer.write_file(doc, side, **opts)
        except Exception:
            pass
        return writer.write_file(doc, path, **opts)
    if entry == "XMLWriter.write_file":
        return XMLWriter(doc).write_file(path, **opts)
    if entry == "RDFWriter.write_file":
        return RDFWriter(doc).write_file(path, **opts)
    raise env.HarnessError(entry)


def ascii_locale():
    """The environment answer 'the preferred encoding is ASCII' (LC_ALL=C without UTF-8 mode): text files that the
    writer modules open without naming an encoding are ASCII files.  Returns the function that undoes it."""
    import builtins
    import importlib
    mods = [importlib.import_module(m) for m in ("odml.tools.odmlparser", "odml.tools.rdf_converter", "odml.tools.xmlparser")]

    def ascii_open(file, mode="r", buffering=-1, encoding=None, *args, **kwargs):
        if "b" not in mode and encoding is None:
            encoding = "ascii"
        return builtins.open(file, mode, buffering, encoding, *args, **kwargs)
    for m in mods:
        m.open = ascii_open

    def undo():
        for m in mods:
            if m.__dict__.get("open") is ascii_open:
                del m.open
    return undo


def ext_for(fmt, opts):
    if fmt == "RDF":
        return RDF_EXT.get(opts.get("rdf_format", "xml"), ".rdf")
    return "." + fmt.lower()


def listing(d):
    out = {}
    for root, dirs, files in os.walk(d):
        for f in files:
            p = os.path.join(root, f)
            with open(p, "rb") as fh:
                out[os.path.relpath(p, d)] = fh.read()
        for x in dirs:
            out[os.path.relpath(os.path.join(root, x), d) + "/"] = b""
    return out


# --------------------------------------------------------------------------- cases

def gen_cases(tier):
    cases = []
    ents = entries()
    causes = [("natural", c, None) for c in NATURAL]
    for site in fault.SITE_NAMES:
        causes.append(("inject", site, "first"))
        causes.append(("inject", site, "last"))
    for docname in ("plain", "deep", "warnings", "noisy"):
        for invalid in INVALID:
            if invalid != "none" and docname == "warnings":
                continue
            for ckind, cause, nth in causes:
                if docname != "plain" and ckind == "natural" and cause != "none" and invalid != "none":
                    continue
                if docname == "noisy" and (ckind != "natural" or cause != "none"):
                    continue          # the noisy document is there for the invalidity knobs
                for entry, fmt, opts in ents:
                    if entry.endswith(":writer-used-twice") and not (ckind == "natural" and cause == "none"):
                        continue      # an injected fault would be counted over both saves
                    for target in ("absent", "present", "no-extension-absent", "no-extension-present"):
                        if docname == "noisy" and target.startswith("no-extension"):
                            continue
                        if tier == "quick" and target.startswith("no-extension") and (ckind == "inject" and nth == "last"):
                            continue
                        cases.append({"doc": docname, "invalid": invalid, "cause_kind": ckind, "cause": cause, "nth": nth,
                                      "entry": entry, "fmt": fmt, "opts": opts, "target": target})
    return cases


def run_case(case):
    scratch = env.fresh_dir("c07")
    try:
        return _run(case, scratch)
    finally:
        env.drop_dir(scratch)


def _run(case, scratch):
    from odml.tools.parser_utils import ParserException
    from odml.tools.odmlparser import ODMLReader
    fails = []
    entry, fmt, opts = case["entry"], case["fmt"], case["opts"]

    def fail(clause, observed=None, explain=""):
        fails.append(report.failure("save", {
            "clause": clause, "entry": entry, "format": fmt + ("/" + ",".join(sorted(opts)) if opts else ""),
            "rdf_format": opts.get("rdf_format"), "invalid": case["invalid"], "cause_kind": case["cause_kind"],
            "cause": case["cause"], "target": case["target"]}, case, observed=observed, explain=explain))

    natural = case["cause"] if case["cause_kind"] == "natural" else "none"
    doc = build_doc(case["doc"], case["invalid"], natural)
    invalid = has_errors(doc)
    warns = has_warnings(doc)
    if (case["invalid"] != "none") != invalid:
        raise env.HarnessError("reference validation disagrees with the construction: %r" % case)
    ext = ext_for(fmt, opts)
    work = os.path.join(scratch, "out")
    os.makedirs(work)
    with open(os.path.join(work, "unrelated.txt"), "wb") as fh:
        fh.write(b"unrelated sentinel\n")
    noext = case["target"].startswith("no-extension")
    path = os.path.join(work, "target" if noext else "target" + ext)
    if case["target"].endswith("present"):
        for cand in {path, os.path.join(work, "target" + ext), os.path.join(work, "target." + fmt.lower()),
                     os.path.join(work, "target." + fmt)}:
            with open(cand, "wb") as fh:
                fh.write(b"earlier data of " + os.path.basename(cand).encode() + b"\n" * 50)
    execs = 0
    inject_at = None
    if case["cause_kind"] == "inject":
        # recording run in a separate directory: how often is the site called?
        rec_dir = os.path.join(scratch, "rec")
        os.makedirs(rec_dir)
        counter = {}
        rec_doc = build_doc(case["doc"], "none", "none")
        try:
            with fault.site(case["cause"], counter=counter):
                with warnings.catch_warnings(record=True):
                    warnings.simplefilter("always")
                    call_entry(entry, fmt, opts, rec_doc, os.path.join(rec_dir, os.path.basename(path)))
        except Exception:
            pass
        execs += 1
        n = counter.get(case["cause"], 0)
        if n == 0 or (case["nth"] == "last" and n == 1):
            return {"failures": [], "outcomes": ["site-not-reached" if n == 0 else "site-called-once"],
                    "nontrivial": 0, "execs": execs}
        inject_at = 1 if case["nth"] == "first" else n
    before = listing(work)
    snap0 = snapshot.snap(doc, identity=True)
    raised = None
    undo_locale = ascii_locale() if natural == "ascii-locale-with-non-ascii-text" else None
    with warnings.catch_warnings(record=True) as caught:
        # an application (or a test run with -W error) may turn warnings into exceptions
        warnings.simplefilter("error" if natural == "warnings-are-errors" else "always")
        try:
            if inject_at is not None:
                with fault.site(case["cause"], raise_at=inject_at):
                    call_entry(entry, fmt, opts, doc, path)
            else:
                call_entry(entry, fmt, opts, doc, path)
        except env.Timeout:
            raise
        except BaseException as exc:
            raised = exc
        finally:
            if undo_locale:
                undo_locale()
    execs += 1
    after = listing(work)
    validating = entry in ("odml.save", "ODMLWriter.write_file", "ODMLWriter.write_file:writer-used-twice")
    outcome = "raise:" + type(raised).__name__ if raised is not None else "written"
    if raised is not None:
        if after != before:
            created = sorted(set(after) - set(before))
            changed = sorted(k for k in before if k in after and after[k] != before[k])
            removed = sorted(set(before) - set(after))
            if created:
                fail("failed-save-created-a-file", {"created": created, "exception": type(raised).__name__},
                     "save raised %s: %s" % (type(raised).__name__, str(raised)[:120]))
            if changed:
                fail("failed-save-changed-an-existing-file", {"changed": changed, "exception": type(raised).__name__,
                                                              "now": after[changed[0]][:60].decode("utf-8", "replace")},
                     "save raised %s: %s" % (type(raised).__name__, str(raised)[:120]))
            if removed:
                fail("failed-save-removed-a-file", {"removed": removed})
    if invalid and validating:
        if raised is None:
            fail("invalid-document-was-written", sorted(set(after) - set(before)) or "existing file overwritten")
        elif not isinstance(raised, ParserException):
            fail("invalid-document-refused-with-another-exception", type(raised).__name__, str(raised)[:200])
    # an unsupported RDF format is one of the failure causes; rdflib's trix serialiser refuses plain graphs
    may_fail = opts.get("rdf_format") in ("no-such-format", "trix") or opts.get("custom_template") == "@unencodable"
    if not invalid and case["cause"] == "none" and not may_fail:
        # nothing can go wrong: the document must be written (and reported when it has warnings)
        if raised is not None:
            fail("valid-document-not-saved", "%s: %s" % (type(raised).__name__, str(raised)[:200]))
        else:
            new = sorted(k for k in after if k not in before or after[k] != before[k])
            if len(new) != 1:
                fail("save-did-not-write-exactly-one-file", new)
            else:
                # how the warnings are worded is the library's business: something must have been reported
                if validating and warns and not caught:
                    fail("warnings-not-reported", [str(w.message)[:80] for w in caught])
                if fmt in ("XML", "JSON", "YAML"):
                    try:
                        back = ODMLReader(fmt, show_warnings=False).from_file(os.path.join(work, new[0]))
                        execs += 1
                        a, b = snapshot.snap(back), snapshot.snap(doc)
                        if a != b:
                            fail("written-file-loads-to-a-different-document", snapshot.short(snapshot.diff(b, a)))
                    except Exception as exc:
                        fail("written-file-does-not-load", "%s: %s" % (type(exc).__name__, str(exc)[:200]))
                elif len(after[new[0]]) == 0:
                    fail("written-file-is-empty", new[0])
    if snapshot.snap(doc, identity=True) != snap0:
        fail("save-changed-the-document", snapshot.short(snapshot.diff(snap0, snapshot.snap(doc, identity=True))))
    return {"failures": fails, "outcomes": ["%s:%s:%s" % (entry, fmt, outcome)],
            "nontrivial": int(raised is not None or (not invalid and case["cause"] == "none")), "execs": execs}


def check(tier):
    run = report.Run(PROP, tier, LEVEL, RULE, assumptions=[
        "OS-level I/O errors during write() are not injected (the statement quantifies over document invalidity and "
        "serialisation failures)",
        "refusal of invalid documents with ParserException is demanded of odml.save and ODMLWriter.write_file (the 'save' of "
        "the statement); the low-level XMLWriter/RDFWriter.write_file do not validate and are only held to 'a save that "
        "raises harms no file'",
        "whether a natural cause makes a given format fail is not prescribed: only the consequences of raising are judged",
    ])
    cases = gen_cases(tier)
    run.bounds = {"injected_faults_per_run": 1, "call_sites": len(fault.SITE_NAMES), "entries_x_formats": len(entries()),
                  "documents": 4, "invalidity_kinds": len(INVALID) - 1, "natural_causes": len(NATURAL) - 1}
    run.layer("product", cases=len(cases))
    par.run_cases(run, "checks.c07", cases, nchunks=par.JOBS * 16)
    return run.finish(reproduce=lambda f: replay(f))


def replay(rec):
    env.reset_globals(env.SEED)
    return run_case(rec["case"])["failures"]
