"""C08 - validation reports exactly the issues the documented rules prescribe.

Input engine: valid baseline documents (every forest of <=3 Sections, two Properties per
Section) made invalid on purpose by 'knobs' (single knobs and pairs), validated as Document
and with every Section and Property as stand-alone root; compared, kind by kind, with the
reference rules of ref/validation.py."""
import itertools

from gen import docs
from mc import env, par, report
from ref import tree, validation as refval

PROP = "C08"
LEVEL = "model_checking"
RULE = ("every forest of <=3 Sections x all single invalidity knobs and all pairs of knobs (quick; triples on "
        "<=2 Sections thorough); knobs: shared ids (every ordered pair of objects incl. the Document), Section type "
        "n.s./None/'', name=id, duplicate sibling names, dependency x dependency_value x target values, every "
        "cardinality kind x normal form, tuple length/dtype mismatch; look-alike layer: sibling Sections whose (name, type) "
        "pairs differ but read alike (a separator of / : | , blank tab - _ . ; or nothing moved between name and type, "
        "None next to 'None' / '', case, blanks, composed/decomposed letters, name of one = type of the other) with real "
        "duplicates as controls, the same for sibling Property names, a dependency naming a look-alike of the sibling's "
        "name, ids differing in the case of the hex digits; each document is validated as Document and "
        "from every Section and Property as root; non-trivial = at least one issue expected or reported")
WATCHDOG_S = 30


def base_spec(shape):
    def props(i):
        if i == 2:
            return []           # the third Section of a forest stays empty (an empty Section is a falsy object)
        return [{"name": "p", "dtype": "string", "values": ["x", "y"]},
                {"name": "q", "dtype": "int", "values": [5]}]
    return docs.doc_of(docs.name_forest(shape, props=props))


def objects(doc):
    """Pre-order list of (path, obj): 'D', 'S0', 'S0:p', ..."""
    out = [("D", doc)]
    n = [0]

    def rec(c):
        for s in tree.children(c)[0]:
            tag = "S%d" % n[0]
            n[0] += 1
            out.append((tag, s))
            for p in tree.children(s)[1]:
                out.append((tag + ":" + p.name, p))
            rec(s)
    rec(doc)
    return out


# Look-alike sibling pairs: two DIFFERENT (name, type) pairs (Sections) / names (Properties) that look the same once
# they are joined into one text, rendered, folded or trimmed.  label -> ((name1, type1), (name2, type2)); the first pair
# goes to the earlier sibling.  Text-valued (or cleared) names and types only, simplest first.
SEPARATORS = ["/", ":", "|", ",", " ", "\t", "-", "_", ".", ";", ""]


def _lookalike_sections():
    out = []
    for sep in SEPARATORS:
        # the separator moved between name and type: 'rec/day' + 'e'  next to  'rec' + 'day/e' (sep '' : plain joining)
        out.append(("shift:%r" % sep, (("rec" + sep + "day", "e"), ("rec", "day" + sep + "e"))))
    out.append(("shift-back:'/'", (("rec", "day/e"), ("rec/day", "e"))))          # the longer name second
    out.append(("shift-twice:'/'", (("a/b/c", "d"), ("a", "b/c/d"))))
    out.append(("rendered:'[]'", (("rec [day", "e]"), ("rec", "day] [e"))))          # 'name [type]' renderings
    out.append(("name-is-type-of-other", (("a", "b"), ("b", "a"))))                 # unordered comparison
    out.append(("both-equal-own-type", (("a", "a"), ("b", "b"))))
    # equal names (private field, the public API refuses them), types that read alike
    out.append(("type:None|'None'", (("s", None), ("s", "None"))))
    out.append(("type:'None'|None", (("s", "None"), ("s", None))))
    out.append(("type:None|''", (("s", None), ("s", ""))))                          # EITHER (ref/validation.py)
    out.append(("type:''|'None'", (("s", ""), ("s", "None"))))
    out.append(("type:case", (("s", "t"), ("s", "T"))))
    out.append(("type:leading-blank", (("s", "t"), ("s", " t"))))
    out.append(("type:trailing-blank", (("s", "t "), ("s", "t"))))
    out.append(("type:tab-vs-blank", (("s", "t\tu"), ("s", "t u"))))
    out.append(("type:composed-vs-decomposed", (("s", "\u00e9"), ("s", "e\u0301"))))
    out.append(("type:prefix", (("s", "t"), ("s", "t/u"))))
    out.append(("type:'n.s.'|None", (("s", "n.s."), ("s", None))))
    # equal types, names that read alike
    out.append(("name:case", (("s", "t"), ("S", "t"))))
    out.append(("name:leading-blank", (("s", "t"), (" s", "t"))))
    out.append(("name:trailing-blank", (("s ", "t"), ("s", "t"))))
    out.append(("name:composed-vs-decomposed", (("\u00e9", "t"), ("e\u0301", "t"))))
    out.append(("name:text-'None'", (("None", "t"), ("none", "t"))))
    # controls: real duplicates whose texts hold the separators (MUST be reported), as must plain ones
    out.append(("same:with-separators", (("rec/day:1|x, y", "e/f g"), ("rec/day:1|x, y", "e/f g"))))
    out.append(("same:type-None", (("s", None), ("s", None))))
    out.append(("same:type-text-None", (("s", "None"), ("s", "None"))))
    return out


def _lookalike_properties():
    return [("name:case", ("v", "V")), ("name:leading-blank", ("v", " v")), ("name:trailing-blank", ("v ", "v")),
            ("name:composed-vs-decomposed", ("\u00e9", "e\u0301")), ("name:separator", ("v/w", "v")),
            ("same:with-separators", ("v/w:1|x, y", "v/w:1|x, y"))]


LOOKALIKE_S = dict(_lookalike_sections())
LOOKALIKE_P = dict(_lookalike_properties())

CARDS = [(None, 1), (None, 2), (None, 3), (1, None), (2, None), (3, None), (0, 1), (1, 1), (1, 2), (2, 2),
         (2, 3), (3, 3)]


def knobs_for(doc):
    """All single knobs applicable to the (still valid) document, as JSON lists."""
    objs = objects(doc)
    out = []
    tags = [t for t, _ in objs]
    for t, o in objs:
        kind = "D" if t == "D" else ("P" if ":" in t else "S")
        if kind != "D":
            for t2 in tags:
                if t2 != t:
                    out.append(["share-id", t, t2])
            out.append(["name-is-id", t])
        if kind == "S":
            for v in ("n.s.", None, ""):
                out.append(["sec-type", t, v])
            for c in CARDS:
                out.append(["card", t, "sec_cardinality", list(c)])
                out.append(["card", t, "prop_cardinality", list(c)])
            out.append(["sub-named-like-prop", t, "p"])
        if kind == "P":
            for c in CARDS:
                out.append(["card", t, "val_cardinality", list(c)])
            for dep in ("sibling", "missing", "subsection", "both"):
                for dv in ("first", "second", "none-equal", None, "text-of-int", "near-miss-text", "other-type"):
                    for tv in ("keep", "empty", "int", "boolean", "date"):
                        if dv in ("near-miss-text", "other-type") and tv in ("keep", "empty"):
                            continue
                        out.append(["dependency", t, dep, dv, tv])
            # the dependency names a text that only looks like the sibling's name: no Property carries it
            for variant in ("case", "trailing-blank", "leading-blank", "path"):
                out.append(["dependency-lookalike", t, variant])
            out.append(["tuple-length", t])
            for variant in ("str-in-int", "datetime-in-date", "str-in-date", "str-in-boolean", "float-text-in-int"):
                out.append(["value-not-of-dtype", t, variant])
    # duplicate sibling names (private field: the public API refuses them)
    for t, o in objs:
        if t == "D" or ":" in t:
            continue
    for (t1, o1), (t2, o2) in itertools.permutations(objs, 2):
        if t1 == "D" or t2 == "D":
            continue
        if (":" in t1) != (":" in t2):
            continue
        if o1.parent is o2.parent and t1 < t2:
            out.append(["dup-name", t2, t1, "same-type"])
            if ":" not in t1:
                out.append(["dup-name", t2, t1, "other-type"])
    # look-alike layer: sibling pairs whose names / (name, type) pairs differ but read alike, and ids that differ in
    # the case of the hex digits only (private field: the public API stores the canonical form)
    for (t1, o1), (t2, o2) in itertools.combinations(objs, 2):
        if t1 == "D" or (":" in t1) != (":" in t2) or o1.parent is not o2.parent:
            continue
        for label, _ in (_lookalike_properties() if ":" in t1 else _lookalike_sections()):
            out.append(["lookalike", t2, t1, label])
    for t, o in objs:
        if t != "D":
            for t2 in tags:
                if t2 != t:
                    out.append(["id-case", t, t2])
    return out


def _rename(o, name):
    """Public setter first; the private field where the public API refuses (a sibling already carries the name)."""
    try:
        o.name = name
    except KeyError:
        pass
    if o.name != name:
        o._name = name


def apply_knob(doc, knob):
    import odml
    objs = dict(objects(doc))
    k = knob[0]
    o = objs.get(knob[1])
    if o is None:
        return False
    if k == "share-id":
        other = objs.get(knob[2])
        if other is None:
            return False
        o.new_id(other.id)
    elif k == "name-is-id":
        o.name = None
    elif k == "sec-type":
        o.type = knob[2]
    elif k == "card":
        setattr(o, knob[2], tuple(knob[3]))
    elif k == "sub-named-like-prop":
        odml.Section(name=knob[2], type="t", parent=o)
    elif k == "dependency":
        _, t, dep, dv, tv = knob
        sec = o.parent
        sib = [p for p in tree.children(sec)[1] if p is not o][0]
        if tv == "empty":
            sib.values = []
        elif tv == "int":
            sib.dtype = None
            sib._dtype = "int"
            sib.values = [5, 6]
        elif tv == "boolean":
            sib.values = []
            sib.dtype = "boolean"
            sib.values = [False]
        elif tv == "date":
            import datetime as _dt
            sib.values = []
            sib.dtype = "date"
            sib.values = [_dt.date(2020, 1, 2)]
        vals = sib.values
        if dep == "sibling":
            o.dependency = sib.name
        elif dep == "missing":
            o.dependency = "zz"
        elif dep == "subsection":
            odml.Section(name="onlysec", type="t", parent=sec)
            o.dependency = "onlysec"
        else:
            odml.Section(name=sib.name, type="t", parent=sec)
            o.dependency = sib.name
        if dv == "first":
            o.dependency_value = vals[0] if vals else "x"
        elif dv == "second":
            o.dependency_value = vals[1] if len(vals) > 1 else "y"
        elif dv == "none-equal":
            o.dependency_value = "nothing-equals-this"
        elif dv == "text-of-int":
            o.dependency_value = "5"
        elif dv == "near-miss-text":
            # text an *input conversion* to the target's dtype would turn into one of its values, but which is not
            # equal to any of them, not even as text
            o.dependency_value = {"int": "5.9", "boolean": "f", "date": "2020-1-2"}.get(tv, "5.9")
        elif dv == "other-type":
            o.dependency_value = {"int": 5.0, "boolean": 0, "date": 20200102}.get(tv, 5.0)
        else:
            o.dependency_value = None
    elif k == "dependency-lookalike":
        sib = [p for p in tree.children(o.parent)[1] if p is not o][0]
        o.dependency = {"case": sib.name.upper(), "trailing-blank": sib.name + " ", "leading-blank": " " + sib.name,
                        "path": "./" + sib.name}[knob[2]]
        o.dependency_value = sib.values[0]
    elif k == "lookalike":
        other = objs.get(knob[2])
        if other is None:
            return False
        if ":" in knob[1]:
            n1, n2 = LOOKALIKE_P[knob[3]]
            _rename(other, n1)
            _rename(o, n2)
        else:
            (n1, ty1), (n2, ty2) = LOOKALIKE_S[knob[3]]
            _rename(other, n1)
            other.type = ty1
            _rename(o, n2)
            o.type = ty2
    elif k == "id-case":
        other = objs.get(knob[2])
        if other is None:
            return False
        o._id = other.id.upper()        # the same UUID, another text
    elif k == "tuple-length":
        o.values = []
        o.dtype = "2-tuple"
        o.values = ["(1;2)"]
        o._values = [["1", "2", "3"]]
    elif k == "value-not-of-dtype":
        import datetime as _dt
        variant = knob[2] if len(knob) > 2 else "str-in-int"
        dtype, good, bad = {"str-in-int": ("int", [1], ["x"]),
                            "datetime-in-date": ("date", [_dt.date(2020, 1, 2)], [_dt.datetime(2020, 1, 2, 3, 4, 5)]),
                            "str-in-date": ("date", [_dt.date(2020, 1, 2)], ["2020-13-45"]),
                            "str-in-boolean": ("boolean", [True], ["maybe"]),
                            "float-text-in-int": ("int", [1], [1, "2.5x"])}[variant]
        o.values = []
        o.dtype = dtype
        o.values = good
        o._values = bad
    elif k == "dup-name":
        other = objs.get(knob[2])
        if other is None:
            return False
        o._name = other.name
        if knob[3] == "other-type":
            o.type = "other"
    return True


NEW_LAYER = ("lookalike", "id-case", "dependency-lookalike")


def pair_wanted(a, b, tier):
    """Pairs with a knob of the look-alike layer: combined with the knobs that touch the same rules (ids, names, types,
    the dependency of a renamed Property) and a thin cut of the others; everything in the thorough tier."""
    if tier == "thorough" or (a[0] not in NEW_LAYER and b[0] not in NEW_LAYER):
        return True
    for x, y in ((a, b), (b, a)):
        if x[0] not in NEW_LAYER:
            continue
        if y[0] == "card" and (x[0] != "lookalike" or y[3] not in ([1, 2], [2, None])):
            return False
        if y[0] == "dependency" and (x[0] != "lookalike" or y[4] != "keep"):
            return False
        if x[0] == "id-case" and y[0] not in ("share-id", "id-case", "lookalike", "dup-name", "name-is-id"):
            return False
        if y[0] in ("value-not-of-dtype", "tuple-length"):
            return False
    return True


def gen_cases(tier):
    env.install()
    cases = []
    max_nodes = 3
    for n in range(1, max_nodes + 1):
        for si, shape in enumerate(docs.tree_shapes(n)):
            doc = docs.build(base_spec(shape))
            knobs = knobs_for(doc)
            cases.append({"shape": shape, "n": n, "knobs": []})
            for k in knobs:
                cases.append({"shape": shape, "n": n, "knobs": [k]})
            # pairs: complete for forests of <= 2 Sections; for 3 Sections pairs of knobs on
            # different kinds (quick) / all pairs (thorough)
            if n <= 2 or tier == "thorough":
                for a, b in itertools.combinations(knobs, 2):
                    if pair_wanted(a, b, tier):
                        cases.append({"shape": shape, "n": n, "knobs": [a, b]})
            else:
                for a, b in itertools.combinations(knobs, 2):
                    if a[0] != b[0] and a[1] != b[1] and {a[0], b[0]} & {"share-id", "dup-name", "sec-type"} \
                            and "card" not in (a[0], b[0]) and pair_wanted(a, b, tier):
                        cases.append({"shape": shape, "n": n, "knobs": [a, b]})
            if tier == "thorough" and n <= 1:
                small = [k for k in knobs if k[0] != "card" or k[3] in ([1, 2], [2, None])]
                small = [k for k in small if k[0] != "dependency" or (k[3] in ("first", "none-equal") and k[4] == "keep")]
                for a, b, c in itertools.combinations(small, 3):
                    cases.append({"shape": shape, "n": n, "knobs": [a, b, c]})
    return cases


def knob_class(k):
    if k[0] == "dependency":
        return "dependency:%s:%s:%s" % (k[2], k[3], k[4])
    if k[0] == "card":
        return "card:%s:%s" % (k[2], tuple(k[3]))
    def kd(t):
        return "D" if t == "D" else ("P" if ":" in t else "S")
    if k[0] == "share-id":
        return "share-id:%s-with-%s" % (kd(k[1]), kd(k[2]))
    if k[0] == "sec-type":
        return "sec-type:%r" % (k[2],)
    if k[0] == "dup-name":
        return "dup-name:%s:%s" % ("P" if ":" in k[1] else "S", k[3])
    if k[0] == "lookalike":
        return "lookalike:%s:%s" % ("P" if ":" in k[1] else "S", k[3])
    if k[0] == "dependency-lookalike":
        return "dependency-lookalike:%s" % k[2]
    if k[0] == "id-case":
        return "id-case:%s-like-%s" % (kd(k[1]), kd(k[2]))
    return k[0]


def run_case(case):
    from odml.validation import Validation
    doc = docs.build(base_spec(case["shape"]))
    try:
        stored = Validation(doc)        # an instance that ran before the document was edited; asked again below
    except Exception:
        stored = None
    for k in case["knobs"]:
        try:
            if not apply_knob(doc, k):
                return {"failures": [], "outcomes": ["knob-not-applicable"], "nontrivial": 0, "execs": 0,
                        "states": 0}
        except Exception:
            return {"failures": [], "outcomes": ["knob-refused-by-api"], "nontrivial": 0, "execs": 0,
                    "states": 0}
    fails, outcomes, execs, nontrivial = [], set(), 0, 0
    roots = objects(doc)
    if stored is not None:
        roots = roots + [("D", doc, "report-of-earlier-instance")]
    for entry in roots:
        tag, root = entry[0], entry[1]
        kind = "document" if tag == "D" else ("property" if ":" in tag else "section")
        if len(entry) > 2:
            kind = "document:" + entry[2]
        execs += 1
        try:
            if len(entry) > 2:
                val = stored
                val.report()            # "validates the registered object and returns a results report"
            else:
                val = Validation(root)
            got = [(e.obj, e.validation_id.value if e.validation_id is not None else None, e.rank)
                   for e in val.errors]
        except Exception as exc:
            fails.append(report.failure("validation", {
                "clause": "validation-raises", "root": kind, "exception": type(exc).__name__,
                "knobs": sorted(knob_class(k) for k in case["knobs"])}, case,
                observed="%s: %s" % (type(exc).__name__, exc)))
            outcomes.add("raises")
            nontrivial = 1
            continue
        must, may, groups = refval.expected(root)
        if must or groups or got:
            nontrivial = 1
        for clause, obj, iid, detail in refval.compare(root, got):
            okind = type(obj).__name__ if obj is not None else "?"
            fails.append(report.failure("validation", {
                "clause": clause, "root": kind, "issue": iid, "object": okind,
                "object_is_root": obj is root,
                "knobs": sorted(knob_class(k) for k in case["knobs"])}, case,
                observed=detail, explain="validating %s as %s: issue %s on %s: %s" % (
                    tag, kind, iid, tree._nm(obj), detail)))
        outcomes.add("%d-issues" % min(len(got), 5))
    return {"failures": fails, "outcomes": outcomes, "nontrivial": nontrivial, "execs": execs, "states": 1}


def check(tier):
    run = report.Run(PROP, tier, LEVEL, RULE, assumptions=[
        "only the kinds the property lists are judged; the prototype 'string might be another dtype' rule and "
        "optional rules are ignored",
        "clash groups (shared id / sibling name): between n-1 and n members must be flagged",
        "dependency: EITHER when the value equals only a later value, only after text conversion, is None, or the "
        "target has no values",
        "names, Section types and dependencies are text or None, as documented ('String providing a grouping "
        "description', 'A name of another Property'): a list or number stored in Section.type / Property.dependency "
        "is outside 'all documents' (no knob for it)",
        "duplicates are compared exactly: pairs differing in case, blanks, composed/decomposed letters, None next to "
        "the text 'None' are different (no issue allowed); EITHER only for equally named siblings with types None "
        "next to '' (both absent) and for ids that are the same UUID in another letter case",
    ])
    cases = gen_cases(tier)
    run.bounds = {"max_sections": 3, "knob_deviations": 2 if tier == "quick" else 3}
    run.layer("documents", cases=len(cases))
    run.layer("look-alike names / types / ids", cases=sum(1 for c in cases if any(k[0] in NEW_LAYER for k in c["knobs"])),
              section_pairs=len(LOOKALIKE_S), property_pairs=len(LOOKALIKE_P), separators=SEPARATORS)
    par.run_cases(run, "checks.c08", cases, nchunks=par.JOBS * 16)
    return run.finish(reproduce=lambda f: replay(f))


def replay(rec):
    env.reset_globals(env.SEED)
    return run_case(rec["case"])["failures"]
