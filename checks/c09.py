"""C09 - cardinalities: normal form, exact violation reports, never enforced, persisted.

Complete grid of settings x previous setting x child count x kind x route, short histories that
change the child count after the cardinality was set, documents with several objects under test
(content-equal twins included) judged object by object, and persistence of every normal-form
cardinality through XML / JSON / YAML (string and file)."""
import itertools
import os

from mc import env, par, report
from ref import cardinality as ref

PROP = "C09"
LEVEL = "model_checking"
RULE = ("complete grid: ~90 settings (None, ints -1..4, all (a,b) over {None,-1..4}, lists, strings, floats, "
        "wrong-length tuples) x previous setting {None,(1,2)} x child count 0..5 x {values, properties, "
        "sections} x {attribute, set_* method, constructor}; all histories of <=4 (quick) / <=5 steps over {set "
        "cardinality, add, remove, clear}; several objects in one validation run: 13 document shapes (twins in two / "
        "three Sections, nested, siblings differing in name only, twin hosts) x 5 cardinalities x {all, first, last, "
        "alternating} x every count vector over 0..3 x {whole document, each sub-tree, single object}, then one child "
        "added to / removed from each object, every object of the document judged by identity; "
        "every normal-form cardinality x kind x {XML,JSON,YAML} x {string,file}. "
        "A case is non-trivial when the assignment raised or stored a value different from the previous one, "
        "or when a warning was due (several-objects layer: when more than one warning was due in one run)")
WATCHDOG_S = 30

KINDS = {
    "values": ("val_cardinality", "set_values_cardinality", 502),
    "properties": ("prop_cardinality", "set_properties_cardinality", 500),
    "sections": ("sec_cardinality", "set_sections_cardinality", 501),
}


def settings():
    vals = [None, -1, 0, 1, 2, 3, 4]
    out = [None] + list(range(-1, 5))
    out += [{"t": [a, b]} for a in vals for b in vals]
    out += [{"l": [a, b]} for a in vals for b in vals]       # the list form of every pair
    out += [{"l": []}, {"l": [1]}, {"l": [1, 2, 3]}, "", "abc", "(1,2)", 0.0, 2.0, {"t": [1.0, 2]},
            {"t": []}, {"t": [1]}, {"t": [1, 2, 3]}]
    # falsy and text elements inside a pair, dicts, booleans (bool is a sub-class of int)
    out += [{"t": [0.0, 3]}, {"t": [3, 0.0]}, {"t": ["", 3]}, {"t": [3, ""]}, {"t": [0.0, 0.0]}, {"t": ["", ""]},
            {"t": ["a", 3]}, {"t": [3, "4"]}, {"t": ["1", "2"]}, {"t": [[], 3]}, {"d": {}}, {"d": {"a": 1}},
            False, {"t": [3, True]}, {"t": [False, False]}, {"t": [None, False]}]
    if not SKIP_BASELINE_DEFECT_BOOL:
        out += BOOL_SETTINGS
    return out


# TODO baseline-defect: format_cardinality lets a bool through as an int, so these settings store a pair with a
# bool in it ((None, True), (True, 3), (False, 3) ...) - not "a pair of non-negative integers or None": the
# warning reads "maximum True values" and the cardinality does not survive XML (written as "(None, True)", read
# back as unset).  Reported, /repo not repaired yet; with the switch off the grid reports
# stored-cardinality-not-in-normal-form for each of them.
SKIP_BASELINE_DEFECT_BOOL = False      # repaired by fix in /repo (booleans are refused): the settings are enumerated
BOOL_SETTINGS = [True, {"t": [True, 3]}, {"t": [None, True]}, {"t": [True, None]}, {"t": [False, 3]},
                 {"t": [True, True]}, {"t": [True, False]}, {"l": [True, 3]}]


def dec(s):
    if isinstance(s, dict):
        if "t" in s:
            return tuple(s["t"])
        if "d" in s:
            return dict(s["d"])
        return list(s["l"])
    return s


def normal_forms(n=3):
    out = []
    for b in range(1, n + 1):
        out.append((None, b))
    for a in range(1, n + 1):
        out.append((a, None))
    for a in range(0, n + 1):
        for b in range(max(a, 1), n + 1):
            out.append((a, b))
    return out


# --------------------------------------------------------------------------- objects

OTHERS = [0]          # children of the *other* kind a Section under test also carries (set per case)


def add_other(kind, sec, i):
    """A child that does not count for the cardinality kind under test."""
    import odml
    if kind == "properties":
        sec.append(odml.Section(name="o%d" % i, type="t"))
    elif kind == "sections":
        sec.append(odml.Property(name="o%d" % i, values=[1]))


def make(kind, count, ctor_card="<none>"):
    import odml
    kw = {}
    attr = KINDS[kind][0]
    if ctor_card != "<none>":
        kw[attr] = ctor_card
    if kind == "values":
        return odml.Property(name="p", values=list(range(10, 10 + count)), dtype="int", **kw)
    sec = odml.Section(name="s", type="t", **kw)
    for i in range(OTHERS[0]):
        add_other(kind, sec, i)
    for i in range(count):
        add_child(kind, sec, i)
    return sec


def add_child(kind, obj, i):
    import odml
    if kind == "values":
        obj.append(100 + i)
    elif kind == "properties":
        obj.append(odml.Property(name="c%d" % i, values=[1]))
    else:
        obj.append(odml.Section(name="c%d" % i, type="t"))


def merge_more(kind, obj, i):
    """Merge a source into obj that brings two more children of the counted kind."""
    import odml
    if kind == "values":
        obj.merge(odml.Property(name=obj.name, values=[1000 + i, 2000 + i], dtype="int"))
    else:
        src = odml.Section(name=obj.name, type=obj.type)
        for j in (0, 1):
            if kind == "properties":
                src.append(odml.Property(name="m%d_%d" % (i, j), values=[1]))
            else:
                src.append(odml.Section(name="m%d_%d" % (i, j), type="t"))
        obj.merge(src)


def remove_child(kind, obj):
    if kind == "values":
        obj.remove(obj.values[-1])
    elif kind == "properties":
        obj.remove(obj.properties[-1])
    else:
        obj.remove(obj.sections[-1])


def clear_children(kind, obj):
    if kind == "values":
        obj.values = []
    elif kind == "properties":
        for c in list(obj.properties):
            obj.remove(c)
    else:
        for c in list(obj.sections):
            obj.remove(c)


def count_of(kind, obj):
    return len(getattr(obj, kind))


def child_ids(kind, obj):
    if kind == "values":
        return list(obj.values)
    return [id(c) for c in getattr(obj, kind)]


def reported(kind, obj):
    """Is a cardinality issue of this kind reported for obj (stand-alone and inside a Document)?"""
    import odml
    from odml.validation import Validation
    vid = KINDS[kind][2]
    res = []
    v = Validation(obj)
    res.append(any(e.obj is obj and e.validation_id is not None and e.validation_id.value == vid
                   for e in v.errors))
    ranks = [e.rank for e in v.errors if e.obj is obj and e.validation_id is not None
             and e.validation_id.value == vid]
    return res[0], ranks


def in_document(kind, obj):
    import odml
    from odml.validation import Validation
    vid = KINDS[kind][2]
    doc = odml.Document()
    if kind == "values":
        sec = odml.Section(name="host", type="t", parent=doc)
        c = obj.clone(keep_id=True)
        c.val_cardinality = obj.val_cardinality
        sec.append(c)
        target = c
    else:
        target = obj.clone(keep_id=True)
        doc.append(target)
    v = doc.validate()
    return any(e.obj is target and e.validation_id is not None and e.validation_id.value == vid
               for e in v.errors)


def cls(setting):
    s = dec(setting)
    return "%s:%r" % (type(s).__name__, s)


# --------------------------------------------------------------------------- cases

def gen_cases(tier):
    cases = []
    for kind in KINDS:
        for route in ("attr", "method", "ctor"):
            for s in settings():
                if route == "method" and not (isinstance(s, dict) and "t" in s and len(s["t"]) == 2):
                    continue
                for prev in (None, {"t": [1, 2]}):
                    if route == "ctor" and prev is not None:
                        continue
                    for others in ((0, 2) if kind != "values" else (0,)):
                        cases.append({"layer": "grid", "kind": kind, "route": route, "setting": s,
                                      "prev": prev, "others": others})
    depth = 4 if tier == "quick" else 6
    for kind in KINDS:
        for start in (0, 2):
            for others in ((0, 1) if kind != "values" else (0,)):
                for n in range(1, depth + 1):
                    for first in range(len(HIST_OPS)):
                        # one case = all histories of length n that begin with operation `first`
                        cases.append({"layer": "history", "kind": kind, "start": start, "depth": n, "first": first,
                                      "others": others})
    for kind in KINDS:
        for shape in sorted(MULTI_SHAPES):
            if (MULTI_SHAPES[shape][0] == "values") != (kind == "values"):
                continue
            for card in MULTI_CARDS:
                for assign in ("all", "first", "last", "alt"):
                    if card is None and assign != "all":
                        continue
                    cases.append({"layer": "multi", "kind": kind, "shape": shape, "card": card, "assign": assign})
    for kind in KINDS:
        for card in normal_forms(3):
            for fmt in ("XML", "JSON", "YAML"):
                cases.append({"layer": "persist", "kind": kind, "card": list(card), "format": fmt})
    return cases


HIST_OPS = [("set", {"t": [1, 2]}), ("set", {"t": [2, None]}), ("set", {"t": [None, 1]}), ("set", None),
            ("set", {"t": [2, 2]}), ("add", None), ("remove", None), ("clear", None), ("add-other", None), ("merge-more", None)]


def run_case(case):
    OTHERS[0] = case.get("others", 0)
    if case["layer"] == "grid":
        return run_grid(case)
    if case["layer"] == "history":
        return run_history(case)
    if case["layer"] == "multi":
        return run_multi(case)
    return run_persist(case)


def F(case, clause, **kw):
    desc = {"layer": case["layer"], "kind": case["kind"], "clause": clause}
    for k in ("route", "format"):
        if k in case:
            desc[k] = case[k]
    if "setting" in case:
        desc["setting"] = cls(case["setting"])
        desc["prev"] = cls(case["prev"])
    for k in ("shape", "assign"):
        if k in case:
            desc[k] = case[k]
    desc.update({k: v for k, v in kw.items() if k in ("count", "card", "entry", "step", "via")})
    return report.failure("cardinality", desc, case, observed=kw.get("observed"),
                          expected=kw.get("expected"), explain=kw.get("explain", ""))


def run_grid(case):
    kind, route = case["kind"], case["route"]
    attr, method, _ = KINDS[kind]
    setting = dec(case["setting"])
    exp = ref.expect(setting)
    fails, outcomes, execs, nontrivial = [], [], 0, 0
    for count in range(0, 6):
        execs += 1
        if route == "ctor":
            prev_stored = None
            try:
                if kind == "values":
                    obj = make(kind, count, ctor_card=setting)
                else:
                    obj = make(kind, 0, ctor_card=setting)
                    for i in range(count):
                        add_child(kind, obj, i)
                raised = None
            except Exception as exc:
                raised = env.exc_label(exc)
                obj = None
        else:
            obj = make(kind, count)
            if case["prev"] is not None:
                setattr(obj, attr, dec(case["prev"]))
            prev_stored = getattr(obj, attr)
            before = child_ids(kind, obj)
            try:
                if route == "attr":
                    setattr(obj, attr, setting)
                else:
                    getattr(obj, method)(setting[0], setting[1])
                raised = None
            except Exception as exc:
                raised = env.exc_label(exc)
        outcomes.append("%s:%s" % (exp[0], raised or "stored"))
        if raised is not None:
            nontrivial = 1
            if exp[0] == "must":
                fails.append(F(case, "valid-setting-refused", count=count, observed=raised,
                               expected=repr(exp[1]), explain="%r refused with %s" % (setting, raised)))
            elif not env.is_a(raised, "ValueError"):
                fails.append(F(case, "refused-with-wrong-exception", count=count, observed=raised,
                               expected="ValueError"))
            if obj is not None:
                if getattr(obj, attr) != prev_stored:
                    fails.append(F(case, "refused-assignment-lost-previous-setting", count=count,
                                   observed=repr(getattr(obj, attr)), expected=repr(prev_stored)))
                if child_ids(kind, obj) != before:
                    fails.append(F(case, "refused-assignment-changed-children", count=count))
            continue
        stored = getattr(obj, attr)
        if stored != prev_stored:
            nontrivial = 1
        if exp[0] == "raise":
            fails.append(F(case, "invalid-setting-accepted", count=count, observed=repr(stored),
                           expected="ValueError", explain="%r stored as %r" % (setting, stored)))
        if not ref.well_formed(stored):
            fails.append(F(case, "stored-cardinality-not-in-normal-form", count=count,
                           observed=repr(stored)))
            continue
        if exp[0] == "must" and not any(ref.same(stored, w) for w in exp[1]):
            fails.append(F(case, "stored-cardinality-differs-from-assignment", count=count,
                           observed=repr(stored), expected=repr(exp[1])))
        if route != "ctor" and child_ids(kind, obj) != before:
            fails.append(F(case, "assignment-changed-children", count=count))
        if count_of(kind, obj) != count:
            fails.append(F(case, "child-count-changed", count=count))
        want = ref.violated(stored, count)
        got, ranks = reported(kind, obj)
        if want:
            nontrivial = 1
        if got != want:
            fails.append(F(case, "warning-missing" if want else "warning-without-violation", count=count,
                           card=repr(stored), observed=got, expected=want,
                           explain="cardinality %r with %d children: reported=%s" % (stored, count, got)))
        elif got and any(r != "warning" for r in ranks):
            fails.append(F(case, "cardinality-issue-not-a-warning", count=count, observed=ranks))
        if in_document(kind, obj) != want:
            fails.append(F(case, "document-validation-disagrees", count=count, card=repr(stored),
                           expected=want))
    return {"failures": fails, "outcomes": set(outcomes), "nontrivial": nontrivial, "execs": execs,
            "states": 1}


def run_history(case):
    kind = case["kind"]
    attr = KINDS[kind][0]
    fails, execs, nontrivial = [], 0, 0
    outcomes = set()
    seen_fail = set()
    for n in (case["depth"],):
        for rest in itertools.product(range(len(HIST_OPS)), repeat=n - 1):
            seq = (case["first"],) + rest
            obj = make(kind, case["start"])
            serial = [100]
            ok = True
            for step, oi in enumerate(seq):
                op, arg = HIST_OPS[oi]
                cnt = count_of(kind, obj)
                try:
                    if op == "set":
                        setattr(obj, attr, dec(arg))
                    elif op == "add":
                        if cnt >= 4:
                            continue
                        serial[0] += 1
                        add_child(kind, obj, serial[0])
                        if count_of(kind, obj) != cnt + 1:
                            raise AssertionError("child not added")
                    elif op == "merge-more":
                        # children arriving through a (strict) merge: two values / two children the object does not have
                        if cnt >= 3:
                            continue
                        serial[0] += 2
                        merge_more(kind, obj, serial[0])
                        if count_of(kind, obj) != cnt + 2:
                            raise AssertionError("merge did not add the two children")
                    elif op == "add-other":
                        if kind == "values":
                            continue
                        serial[0] += 1
                        add_other(kind, obj, serial[0])
                        if count_of(kind, obj) != cnt:
                            raise AssertionError("a child of the other kind changed the count")
                    elif op == "remove":
                        if cnt == 0:
                            continue
                        remove_child(kind, obj)
                        if count_of(kind, obj) != cnt - 1:
                            raise AssertionError("child not removed")
                    else:
                        clear_children(kind, obj)
                except Exception as exc:
                    key = ("refused", op, type(exc).__name__)
                    if key not in seen_fail:
                        seen_fail.add(key)
                        fails.append(F(case, "child-edit-refused-or-failed", step=op,
                                       card=repr(getattr(obj, attr)), observed=type(exc).__name__,
                                       explain="sequence %r" % ([HIST_OPS[i] for i in seq],)))
                    ok = False
                    break
            execs += 1
            if not ok:
                continue
            stored = getattr(obj, attr)
            cnt = count_of(kind, obj)
            want = ref.violated(stored, cnt)
            got, _ = reported(kind, obj)
            outcomes.add("warn" if got else "quiet")
            nontrivial += 1 if want else 0
            if got != want:
                key = ("iff", repr(stored), cnt, got)
                if key not in seen_fail:
                    seen_fail.add(key)
                    fails.append(F(case, "warning-missing" if want else "warning-without-violation",
                                   count=cnt, card=repr(stored), observed=got, expected=want,
                                   explain="after %r" % ([HIST_OPS[i] for i in seq],)))
    return {"failures": fails, "outcomes": outcomes, "nontrivial": nontrivial, "execs": execs,
            "states": execs}


# --------------------------------------------------------------------------- several objects in one run

# shape -> (kind family, placements); a placement = (names of the host Sections below the Document, name of
# the object under test).  The objects under test of one shape carry the same type / dtype and - when their
# counts agree - the same children, so that equally named ones are content-equal twins (odml's == ignores ids).
MULTI_SHAPES = {
    "v1-one": ("values", [(("s1",), "p")]),
    "v2-twins-in-two-sections": ("values", [(("s1",), "p"), (("s2",), "p")]),
    "v3-twins-in-three-sections": ("values", [(("s1",), "p"), (("s2",), "p"), (("s3",), "p")]),
    "v4-twins-nested": ("values", [(("s1",), "p"), (("s1", "sub"), "p")]),
    "v5-siblings-name-differs": ("values", [(("s1",), "p1"), (("s1",), "p2")]),
    "v6-twins-in-twin-hosts": ("values", [(("a", "x"), "p"), (("b", "x"), "p")]),
    "s1-one": ("sections", [(("a",), "e")]),
    "s2-twins-under-two-parents": ("sections", [(("a",), "e"), (("b",), "e")]),
    "s3-twins-under-three-parents": ("sections", [(("a",), "e"), (("b",), "e"), (("c",), "e")]),
    "s4-siblings-name-differs-top": ("sections", [((), "e1"), ((), "e2")]),
    "s5-siblings-name-differs-below": ("sections", [(("a",), "e1"), (("a",), "e2")]),
    "s6-twins-nested": ("sections", [(("a",), "e"), (("a", "x"), "e")]),
    "s7-twins-at-two-depths": ("sections", [((), "e"), (("a",), "e")]),
}
MULTI_CARDS = [None, {"t": [1, 2]}, {"t": [2, None]}, {"t": [None, 1]}, {"t": [2, 2]}]
MULTI_COUNTS = (0, 1, 2, 3)


def multi_build(kind, placements, counts, cards):
    """The Document of a shape; returns (doc, objects under test in placement order)."""
    import odml
    attr = KINDS[kind][0]
    doc = odml.Document()
    targets = []
    for (hosts, name), count, card in zip(placements, counts, cards):
        host = doc
        for h in hosts:
            found = [x for x in host.sections if x.name == h]
            host = found[0] if found else odml.Section(name=h, type="t", parent=host)
        if kind == "values":
            obj = odml.Property(name=name, values=list(range(10, 10 + count)), dtype="int")
        else:
            obj = odml.Section(name=name, type="t")
            for i in range(count):
                add_child(kind, obj, i)
        if card is not None:
            setattr(obj, attr, card)
        host.append(obj)
        targets.append(obj)
    return doc, targets


def subtree(root):
    """Every Section and Property a validation started at root covers (root itself unless a Document)."""
    out = []
    name = root.format().name
    if name == "property":
        return [root]
    if name == "section":
        out.append(root)
        out.extend(root.properties)
    for sec in root.itersections(recursive=True):
        out.append(sec)
        out.extend(sec.properties)
    return out


def multi_judge(root, via):
    """Per object (identity) of the validated tree and per kind: a cardinality issue iff the count is outside.

    Returns a list of (clause, kind, card, count, path) and the number of due warnings."""
    from odml.validation import Validation
    errors = root.validate().errors if via == "doc.validate" else Validation(root).errors
    bad, due = [], 0
    scope = subtree(root)
    for obj in scope:
        kinds = ("values",) if obj.format().name == "property" else ("properties", "sections")
        for kind in kinds:
            attr, _, vid = KINDS[kind]
            stored = getattr(obj, attr)
            cnt = count_of(kind, obj)
            want = ref.violated(stored, cnt)
            hits = [e for e in errors if e.obj is obj and e.validation_id is not None
                    and e.validation_id.value == vid]
            due += 1 if want else 0
            if bool(hits) != want:
                bad.append(("warning-missing" if want else "warning-without-violation", kind, repr(stored), cnt,
                            obj.get_path()))
            elif any(e.rank != "warning" for e in hits):
                bad.append(("cardinality-issue-not-a-warning", kind, repr(stored), cnt, obj.get_path()))
    return bad, due


def run_multi(case):
    kind = case["kind"]
    placements = MULTI_SHAPES[case["shape"]][1]
    n = len(placements)
    card = dec(case["card"])
    cards = {"all": [card] * n,
             "first": [card] + [None] * (n - 1),
             "last": [None] * (n - 1) + [card],
             "alt": [card if i % 2 == 0 else (1, 1) for i in range(n)]}[case["assign"]]
    fails, execs, nontrivial, states = [], 0, 0, 0
    outcomes = set()
    seen_fail = set()

    def look(doc, targets, counts, stage):
        nonlocal execs, nontrivial
        roots = [("Validation(doc)", doc)]
        if stage == "built":        # after an edit only the whole document is validated again
            roots.append(("doc.validate", doc))
            roots += [("Validation(sub-tree)", s) for s in doc.sections]
            roots += [("Validation(object)", t) for t in targets]
        for via, root in roots:
            execs += 1
            bad, due = multi_judge(root, via)
            nontrivial += 1 if due > 1 else 0
            outcomes.add("due:%d" % min(due, 3))
            for clause, k, stored, cnt, path in bad:
                key = (clause, via, k, stored, cnt)
                if key in seen_fail:
                    continue
                seen_fail.add(key)
                fails.append(F(case, clause, via=via, count=cnt, card=stored, observed=not clause == "warning-missing",
                               expected=clause == "warning-missing",
                               explain="%s: %s cardinality %s of %s with %d children; objects under test had %r "
                                       "children (%s)" % (via, k, stored, path, cnt, list(counts), stage)))

    for counts in itertools.product(MULTI_COUNTS, repeat=n):
        doc, targets = multi_build(kind, placements, counts, cards)
        states += 1
        look(doc, targets, counts, "built")
        # the editing history goes on: each object in turn gets one more child, then loses it again
        for i, obj in enumerate(targets):
            before = count_of(kind, obj)
            try:
                add_child(kind, obj, 50 + i)
                now = list(counts)
                now[i] += 1
                if count_of(kind, obj) != before + 1:
                    raise AssertionError("child not added")
                look(doc, targets, now, "one added to object %d" % i)
                remove_child(kind, obj)
                if count_of(kind, obj) != before:
                    raise AssertionError("child not removed")
                look(doc, targets, counts, "added to and removed from object %d" % i)
            except Exception as exc:
                key = ("refused", type(exc).__name__)
                if key not in seen_fail:
                    seen_fail.add(key)
                    fails.append(F(case, "child-edit-refused-or-failed", card=repr(card), observed=type(exc).__name__,
                                   explain="object %d of counts %r" % (i, list(counts))))
                break
    return {"failures": fails, "outcomes": outcomes, "nontrivial": nontrivial, "execs": execs, "states": states}


def run_persist(case):
    import odml
    from odml.tools.odmlparser import ODMLWriter, ODMLReader
    kind, fmt = case["kind"], case["format"]
    attr = KINDS[kind][0]
    card = tuple(case["card"])
    fails, execs = [], 0
    doc = odml.Document()
    sec = odml.Section(name="s", type="t", parent=doc)
    prop = odml.Property(name="p", values=[1, 2], parent=sec)
    odml.Section(name="sub", type="t", parent=sec)
    target = prop if kind == "values" else sec
    setattr(target, attr, card)
    stored = getattr(target, attr)
    if not ref.same(stored, card):
        fails.append(F(case, "stored-cardinality-differs-from-assignment", card=repr(card),
                       observed=repr(stored)))
        return {"failures": fails, "outcomes": ["not-set"], "nontrivial": 1, "execs": 1}
    d = env.fresh_dir("c09")
    try:
        for entry in ("string", "file", "odml.save"):
            execs += 1
            try:
                if entry == "string":
                    text = ODMLWriter(fmt).to_string(doc)
                    back = ODMLReader(fmt, show_warnings=False).from_string(text)
                elif entry == "file":
                    path = os.path.join(d, "f." + fmt.lower())
                    ODMLWriter(fmt).write_file(doc, path)
                    back = ODMLReader(fmt, show_warnings=False).from_file(path)
                else:
                    path = os.path.join(d, "g." + fmt.lower())
                    odml.save(doc, path, fmt)
                    back = odml.load(path, fmt, show_warnings=False)
                bt = back.sections[0].properties[0] if kind == "values" else back.sections[0]
                got = getattr(bt, attr)
            except Exception as exc:
                fails.append(F(case, "save-or-load-raises", card=repr(card), entry=entry,
                               observed=type(exc).__name__))
                continue
            if not ref.same(got, stored):
                fails.append(F(case, "cardinality-lost-or-changed-by-save-load", card=repr(card),
                               entry=entry, observed=repr(got), expected=repr(stored),
                               explain="%s %r reloads from %s as %r" % (attr, stored, fmt, got)))
    finally:
        env.drop_dir(d)
    return {"failures": fails, "outcomes": ["persist"], "nontrivial": 1, "execs": execs}


def check(tier):
    run = report.Run(PROP, tier, LEVEL, RULE, assumptions=[
        "falsy inputs (0, 0.0, '', (), (0,0), (n,0)) and 2-lists are judged by the invariants only (EITHER)",
        "0 and None are the same minimum",
    ])
    cases = gen_cases(tier)
    run.bounds = {"grid": "complete", "history_depth": 4 if tier == "quick" else 6,
                  "persisted_bounds_up_to": 3, "child_counts": "0..5",
                  "multi": "13 shapes of 1-3 objects under test, counts 0..3 each (+1 by an edit)"}
    for layer in ("grid", "history", "multi", "persist"):
        run.layer(layer, cases=sum(1 for c in cases if c["layer"] == layer))
    par.run_cases(run, "checks.c09", cases)
    return run.finish(reproduce=lambda f: replay(f))


def replay(rec):
    env.reset_globals(env.SEED)
    return run_case(rec["case"])["failures"]
