"""C10 - RDF export is faithful and imports back unchanged.

Input engine: documents of the value / attribute / tree layers and lists of 1-3 documents x
serialisations {xml, nt, json-ld, turtle, n3} x sub-classing {on, off, custom map} x entry points;
graph shape against ref/rdf_shape.py (on the writer's graph and on the re-parsed text), import
compared by snapshot projection (ids, names, types, definitions, references, units,
uncertainties, value origins, dtypes, values in order; sibling order projected away)."""
import os

from gen import docs
from mc import env, par, report, snapshot
from ref import rdf_shape, tree
from checks import rt

PROP = "C10"
LEVEL = "model_checking"
RULE = ("value lists of length <=2 over the atoms of every dtype, every RDF-carried attribute x every text atom, all forests "
        "with <=N Sections, lists of 1-3 documents; x 5 serialisations x sub-classing on/off/custom x 3 entry pairs; "
        "non-trivial = at least one Property value or optional attribute was exported")
WATCHDOG_S = 60

FORMATS = ["xml", "nt", "json-ld", "turtle", "n3"]
EXT = {"xml": ".rdf", "nt": ".nt", "json-ld": ".jsonld", "turtle": ".ttl", "n3": ".n3"}
CUSTOM = {"mytype": "MyCustomClass", "analysis": "Renamed"}
# a few entries of odml/resources/section_subclasses.yaml, copied by hand
DEFAULT_SUBCLASSES = {"analysis": "Analysis", "cell": "Cell", "analysis/psth": "PSTH"}

KEEP_DOC = ("kind", "id", "author", "version", "date")
KEEP_SEC = ("kind", "id", "name", "type", "definition", "reference")
KEEP_PROP = ("kind", "id", "name", "dtype", "unit", "uncertainty", "definition", "reference", "value_origin", "values")


def project(snap):
    """The part of a document snapshot RDF carries, siblings ordered by id."""
    k = snap["kind"]
    if k == "document":
        out = {a: snap[a] for a in KEEP_DOC}
        out["version"] = rt._as_text(out["version"])      # RDF literals of the Document attributes come back as text
        out["sections"] = sorted((project(s) for s in snap["sections"]), key=lambda s: snapshot.canon(s["id"]))
    elif k == "section":
        out = {a: snap[a] for a in KEEP_SEC}
        out["sections"] = sorted((project(s) for s in snap["sections"]), key=lambda s: snapshot.canon(s["id"]))
        out["properties"] = sorted((project(p) for p in snap["properties"]), key=lambda s: snapshot.canon(s["id"]))
    else:
        out = {a: snap[a] for a in KEEP_PROP}
        out["uncertainty"] = rt._number(out["uncertainty"])
    # an attribute holding the empty string is an unset attribute
    for a, v in list(out.items()):
        if v == ["str", "''"]:
            out[a] = None
    return out


def gen_cases(tier):
    cases = []
    for c in rt.layer_values(tier, max_len=2):
        if tier == "quick" and c["tags"]["dtype"] in ("text", "url", "person") and c["tags"]["n_values"] == 2:
            continue            # quick: the string-like dtypes share one code path; pairs are enumerated for string and None
        c["fmts"], c["entries"], c["sub"] = FORMATS, ["string"], ["on"]
        cases.append(c)
    for c in rt.layer_attrs(tier):
        if c["tags"]["attr"] in ("repository", "dependency", "dependency_value"):
            continue
        c["fmts"], c["entries"], c["sub"] = FORMATS, ["string", "file"], ["on"]
        cases.append(c)
    for c in rt.layer_trees("quick" if tier == "quick" else "thorough"):
        if c["tags"]["sections"] > (3 if tier == "quick" else 5):
            continue
        c["fmts"], c["entries"], c["sub"] = FORMATS, ["string", "file", "odml.save", "string-writer-used-twice"], ["on", "off", "custom"]
        cases.append(c)
    # section types: mapped by default, unmapped, custom-mapped; and lists of documents
    types = ["analysis", "t", "mytype", "analysis/psth"]
    for ndocs in ((1, 2, 3) if tier == "quick" else (1, 2, 3, 4, 5)):
        specs = []
        for i in range(ndocs):
            secs = [rt.S("s%d" % j, types[(i + j) % 4], props=[rt.P("p", [i, j], "int"), rt.P("q", ["v%d" % i], "string")],
                         secs=[rt.S("sub", types[(i + j + 1) % 4])]) for j in range(2)]
            specs.append(docs.doc_of(secs, author="author %d" % i, version="%d.0" % i))
        cases.append({"layer": "D", "spec": specs[0], "more": specs[1:], "tags": {"documents": ndocs},
                      "fmts": FORMATS, "entries": ["string", "file", "string-writer-used-twice"] + (["odml.save"] if ndocs == 1 else []),
                      "sub": ["on", "off", "custom"]})
    # documents with equal content and different ids (a document and its copy; two empty documents), and entities of
    # one export that name the same repository
    twin = docs.doc_of([rt.S("s", "t", props=[rt.P("p", [1], "int")])], author="same")
    cases.append({"layer": "D", "spec": twin, "more": [twin, docs.doc_of([]), docs.doc_of([])], "tags": {"documents": "content-equal"},
                  "fmts": FORMATS, "entries": ["string", "file", "string-reader-used-twice"], "sub": ["on"]})
    url = "https://example.org/terms.xml"
    shared = [docs.doc_of([rt.S("s", "t", repository=url), rt.S("s2", "t", repository=url)], repository=url),
              docs.doc_of([rt.S("s", "t", repository="https://example.org/other.xml")], repository=url)]
    cases.append({"layer": "D", "spec": shared[0], "more": shared[1:], "tags": {"documents": "shared-repository"},
                  "fmts": FORMATS, "entries": ["string", "file"], "sub": ["on", "off"]})
    return cases


def run_case(case):
    scratch = env.fresh_dir("c10")
    try:
        return _run(case, scratch)
    finally:
        env.drop_dir(scratch)


def _run(case, scratch):
    import odml
    import rdflib
    from odml.tools.rdf_converter import RDFWriter, RDFReader
    from odml.tools.odmlparser import ODMLReader
    fails = []
    tags = case["tags"]

    def fail(clause, entry, observed=None, field=None, fmt=None, sub=None):
        fails.append(report.failure("rdf", {
            "clause": clause, "entry": entry, "rdf_format": fmt, "subclassing": sub, "layer": case["layer"], "field": field,
            "dtype": tags.get("dtype"), "atoms": rt.features(tags.get("atoms", [])), "n_values": tags.get("n_values"),
            "attr": tags.get("attr"), "element": tags.get("element"), "documents": tags.get("documents")},
            case, observed=observed))
    try:
        documents = [docs.build(s) for s in [case["spec"]] + case.get("more", [])]
    except Exception as exc:
        return {"failures": [], "outcomes": ["not-buildable:" + type(exc).__name__], "nontrivial": 0, "execs": 0}
    before = [snapshot.snap(d, identity=True) for d in documents]
    want = sorted((project(snapshot.snap(d)) for d in documents), key=lambda s: snapshot.canon(s["id"]))
    execs = 0

    def subclass_fn(mode):
        if mode == "off":
            return None
        table = dict(DEFAULT_SUBCLASSES)
        if mode == "custom":
            table.update(CUSTOM)
        return lambda sec: table.get(sec.type)

    def writer(mode):
        arg = documents if len(documents) > 1 else documents[0]
        if mode == "off":
            return RDFWriter(arg, rdf_subclassing=False)
        if mode == "custom":
            return RDFWriter(arg, custom_subclasses=dict(CUSTOM))
        return RDFWriter(arg)

    for sub in case["sub"]:
        # the graph the writer builds
        try:
            g = writer(sub).convert_to_rdf()
            execs += 1
        except Exception as exc:
            fail("export-raises", "convert_to_rdf", "%s: %s" % (type(exc).__name__, str(exc)[:160]), sub=sub)
            continue
        for clause, detail in rdf_shape.violations(g, documents, subclass_fn(sub))[:3]:
            fail("graph-shape:" + clause, "convert_to_rdf", detail, sub=sub,
                 field=detail[1] if isinstance(detail, tuple) and len(detail) > 1 and isinstance(detail[1], str) else None)
        for fmt in case["fmts"]:
            for entry in case["entries"]:
                label = entry
                path = os.path.join(scratch, "out" + EXT[fmt])
                if os.path.exists(path):
                    os.unlink(path)
                try:
                    if entry == "string-writer-used-twice":
                        # one writer object asked twice (e.g. for two serialisations): the second answer is judged
                        wr = writer(sub)
                        wr.get_rdf_str("xml")
                        text = wr.get_rdf_str(fmt)
                    elif entry in ("string", "string-reader-used-twice"):
                        text = writer(sub).get_rdf_str(fmt)
                    elif entry == "file":
                        writer(sub).write_file(path, fmt)
                        with open(path) as fh:
                            text = fh.read()
                    else:
                        if sub != "on":
                            continue      # odml.save has no sub-classing options
                        odml.save(documents[0], path, "RDF", rdf_format=fmt)
                        with open(path) as fh:
                            text = fh.read()
                    execs += 1
                except Exception as exc:
                    fail("export-raises", label, "%s: %s" % (type(exc).__name__, str(exc)[:160]), fmt=fmt, sub=sub)
                    continue
                # the serialised text, parsed with plain rdflib
                try:
                    g2 = rdflib.Graph().parse(data=text, format=fmt)
                    for clause, detail in rdf_shape.violations(g2, documents, subclass_fn(sub))[:2]:
                        fail("serialised-shape:" + clause, label, detail, fmt=fmt, sub=sub)
                except Exception as exc:
                    fail("serialised-text-not-parseable", label, "%s: %s" % (type(exc).__name__, str(exc)[:160]), fmt=fmt, sub=sub)
                    continue
                # import
                try:
                    if entry == "string-reader-used-twice":
                        # one reader object asked twice: the second answer is judged
                        rd = RDFReader()
                        rd.from_string(text, fmt)
                        back = rd.from_string(text, fmt)
                    elif entry.startswith("string"):
                        back = RDFReader().from_string(text, fmt)
                    elif entry == "file":
                        back = RDFReader().from_file(path, fmt)
                    else:
                        back = ODMLReader("RDF", show_warnings=False).from_file(path, fmt)
                    execs += 1
                except Exception as exc:
                    fail("import-raises", label, "%s: %s" % (type(exc).__name__, str(exc)[:160]), fmt=fmt, sub=sub)
                    continue
                if len(back) != len(documents):
                    fail("import-returns-another-number-of-documents", label, [len(back), len(documents)], fmt=fmt, sub=sub)
                    continue
                got = sorted((project(snapshot.snap(d)) for d in back), key=lambda s: snapshot.canon(s["id"]))
                if got != want:
                    df = snapshot.diff(want, got)
                    fail("imported-document-differs", label, snapshot.short(df), field=rt.field_of(df[0]), fmt=fmt, sub=sub)
    if [snapshot.snap(d, identity=True) for d in documents] != before:
        fail("export-changed-the-documents", "any", None)
    nontrivial = 1
    return {"failures": fails, "outcomes": ["exported"], "nontrivial": nontrivial, "execs": max(execs, 1)}


def check(tier):
    run = report.Run(PROP, tier, LEVEL, RULE, assumptions=[
        "repository round trip and hasFileName are not judged (statement silent); cardinalities, dependencies, links are not "
        "carried by RDF and not compared",
        "the uncertainty is compared as a number; an attribute holding the empty string counts as unset",
        "sibling order is projected away (children sorted by id)",
    ])
    cases = gen_cases(tier)
    layers = {}
    for c in cases:
        layers[c["layer"]] = layers.get(c["layer"], 0) + 1
    for k, v in sorted(layers.items()):
        run.layer(k, documents=v)
    run.bounds = {"value_list_length": 2, "max_sections": 3 if tier == "quick" else 5, "documents_per_export": 3,
                  "serialisations": FORMATS}
    par.run_cases(run, "checks.c10", cases, nchunks=par.JOBS * 16)
    return run.finish(reproduce=lambda f: replay(f))


def replay(rec):
    env.reset_globals(env.SEED)
    return run_case(rec["case"])["failures"]
