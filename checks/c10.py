"""C10 - RDF export is faithful and imports back unchanged.

Input engine: documents of the value / attribute / tree layers and lists of 1-3 documents x
serialisations {xml, nt, json-ld, turtle, n3} x sub-classing {on, off, custom map} x entry points; layer W: one
writer / reader object used for several exports while the documents are edited in between;
graph shape against ref/rdf_shape.py (on the writer's graph and on the re-parsed text), import
compared by snapshot projection (ids, names, types, definitions, references, units,
uncertainties, value origins, dtypes, values in order; sibling order projected away)."""
import os

from gen import docs
from mc import env, par, report, snapshot
from ref import rdf_shape, tree
from checks import rt

PROP = "C10"
LEVEL = "model_checking"
RULE = ("value lists of length <=2 over the atoms of every dtype, every RDF-carried attribute x every text atom, all forests "
        "with <=N Sections, lists of 1-3 documents; x 5 serialisations x sub-classing on/off/custom x 3 entry pairs; "
        "one writer and one reader used for export / edit / export[/ edit / export] sequences over every kind of edit "
        "(attributes, values, Sections and Properties added / removed, writer.docs changed) x pairs of entry points; "
        "non-trivial = at least one Property value or optional attribute was exported")
WATCHDOG_S = 60

FORMATS = ["xml", "nt", "json-ld", "turtle", "n3"]
EXT = {"xml": ".rdf", "nt": ".nt", "json-ld": ".jsonld", "turtle": ".ttl", "n3": ".n3"}
CUSTOM = {"mytype": "MyCustomClass", "analysis": "Renamed"}
# a few entries of odml/resources/section_subclasses.yaml, copied by hand
DEFAULT_SUBCLASSES = {"analysis": "Analysis", "cell": "Cell", "analysis/psth": "PSTH"}

KEEP_DOC = ("kind", "id", "author", "version", "date")
KEEP_SEC = ("kind", "id", "name", "type", "definition", "reference")
KEEP_PROP = ("kind", "id", "name", "dtype", "unit", "uncertainty", "definition", "reference", "value_origin", "values")


def project(snap):
    """The part of a document snapshot RDF carries, siblings ordered by id."""
    k = snap["kind"]
    if k == "document":
        out = {a: snap[a] for a in KEEP_DOC}
        out["version"] = rt._as_text(out["version"])      # RDF literals of the Document attributes come back as text
        out["sections"] = sorted((project(s) for s in snap["sections"]), key=lambda s: snapshot.canon(s["id"]))
    elif k == "section":
        out = {a: snap[a] for a in KEEP_SEC}
        out["sections"] = sorted((project(s) for s in snap["sections"]), key=lambda s: snapshot.canon(s["id"]))
        out["properties"] = sorted((project(p) for p in snap["properties"]), key=lambda s: snapshot.canon(s["id"]))
    else:
        out = {a: snap[a] for a in KEEP_PROP}
        out["uncertainty"] = rt._number(out["uncertainty"])
    # an attribute holding the empty string is an unset attribute
    for a, v in list(out.items()):
        if v == ["str", "''"]:
            out[a] = None
    return out


def gen_cases(tier):
    cases = []
    for c in rt.layer_values(tier, max_len=2):
        if tier == "quick" and c["tags"]["dtype"] in ("text", "url", "person") and c["tags"]["n_values"] == 2:
            continue            # quick: the string-like dtypes share one code path; pairs are enumerated for string and None
        c["fmts"], c["entries"], c["sub"] = FORMATS, ["string"], ["on"]
        cases.append(c)
    for c in rt.layer_attrs(tier):
        if c["tags"]["attr"] in ("repository", "dependency", "dependency_value"):
            continue
        c["fmts"], c["entries"], c["sub"] = FORMATS, ["string", "file"], ["on"]
        cases.append(c)
    for c in rt.layer_trees("quick" if tier == "quick" else "thorough"):
        if c["tags"]["sections"] > (3 if tier == "quick" else 5):
            continue
        c["fmts"], c["entries"], c["sub"] = FORMATS, ["string", "file", "odml.save", "string-writer-used-twice"], ["on", "off", "custom"]
        cases.append(c)
    # section types: mapped by default, unmapped, custom-mapped; and lists of documents
    types = ["analysis", "t", "mytype", "analysis/psth"]
    for ndocs in ((1, 2, 3) if tier == "quick" else (1, 2, 3, 4, 5)):
        specs = []
        for i in range(ndocs):
            secs = [rt.S("s%d" % j, types[(i + j) % 4], props=[rt.P("p", [i, j], "int"), rt.P("q", ["v%d" % i], "string")],
                         secs=[rt.S("sub", types[(i + j + 1) % 4])]) for j in range(2)]
            specs.append(docs.doc_of(secs, author="author %d" % i, version="%d.0" % i))
        cases.append({"layer": "D", "spec": specs[0], "more": specs[1:], "tags": {"documents": ndocs},
                      "fmts": FORMATS, "entries": ["string", "file", "string-writer-used-twice"] + (["odml.save"] if ndocs == 1 else []),
                      "sub": ["on", "off", "custom"]})
    # documents with equal content and different ids (a document and its copy; two empty documents), and entities of
    # one export that name the same repository
    twin = docs.doc_of([rt.S("s", "t", props=[rt.P("p", [1], "int")])], author="same")
    cases.append({"layer": "D", "spec": twin, "more": [twin, docs.doc_of([]), docs.doc_of([])], "tags": {"documents": "content-equal"},
                  "fmts": FORMATS, "entries": ["string", "file", "string-reader-used-twice"], "sub": ["on"]})
    url = "https://example.org/terms.xml"
    shared = [docs.doc_of([rt.S("s", "t", repository=url), rt.S("s2", "t", repository=url)], repository=url),
              docs.doc_of([rt.S("s", "t", repository="https://example.org/other.xml")], repository=url)]
    cases.append({"layer": "D", "spec": shared[0], "more": shared[1:], "tags": {"documents": "shared-repository"},
                  "fmts": FORMATS, "entries": ["string", "file"], "sub": ["on", "off"]})
    # control characters and unusual line ends: every serialisation that can hold them (XML 1.0 has no form for U+0001 / U+000B)
    for a, fmts in (("a\rb", FORMATS), ("a\r\nb", FORMATS), ("a\x7fb", FORMATS), ("a\x85b", FORMATS), ("a\u2028b", FORMATS),
                    ("a\x0bb", FORMATS[1:]), ("a\x01b", FORMATS[1:]), ("a\x0cb\x1f", FORMATS[1:])):
        cases.append({"layer": "V", "spec": docs.simple_doc(rt.P("p", ["k", a], "string")), "fmts": fmts, "entries": ["string", "file"],
                      "sub": ["on"], "tags": {"dtype": "string", "atoms": [repr("k"), repr(a)], "n_values": 2}})
        cases.append({"layer": "A", "spec": rt.attr_doc("section", "definition", a), "fmts": fmts, "entries": ["string", "file"],
                      "sub": ["on"], "tags": {"element": "section", "attr": "definition", "atoms": [repr(a)]}})
    cases.extend(layer_writer_state(tier))
    return cases


# --------------------------------------------------------------------------- layer W: state a writer / reader carries across calls
#
# One RDFWriter (and one RDFReader) is used for a sequence of exports while the documents are worked on in between:
# export, edit, export[, edit, export].  Every export is judged against the documents as they are at the time of the call.
# An edit is a list of steps; a step addresses an object of the documents the writer was created with by
# "at" = [index of the document, Section name, Section name, ...] and, for a Property, "prop" = its name.

def _tree_base():
    return docs.doc_of([
        rt.S("s0", "t", definition="first definition",
             props=[rt.P("p", [1, 2], "int", unit="mV"), rt.P("q", ["x", "y"], "string"), rt.P("e", [], "int")],
             secs=[rt.S("sub", "analysis", props=[rt.P("f", [0.5, 1.5], "float", uncertainty=0.25, definition="pdef")])]),
        rt.S("s1", "cell")], author="A. U. Thor", version="1.0")


def _second_doc():
    return docs.doc_of([rt.S("s0", "analysis", props=[rt.P("p", [10], "int")])], author="second author", version="2.0",
                       date={"date": "1999-12-31"})


def _new_doc(tag):
    return docs.doc_of([rt.S("n" + tag, "cell", definition="new " + tag, props=[rt.P("np", [tag], "string")])], author="new " + tag)


def entity_edits():
    """(label, steps, sub-classing modes), simplest first."""
    D, S0, SUB, S1 = [0], [0, "s0"], [0, "s0", "sub"], [0, "s1"]

    def st(at, attr, value, prop=None):
        return {"op": "set", "at": at, "prop": prop, "attr": attr, "value": value}

    def vals(op, prop, arg, at=S0):
        return {"op": op, "at": at, "prop": prop, "arg": arg}
    one = ["on"]
    every = ["on", "off", "custom"]
    new_leaf = rt.S("added", "t")
    new_tree = rt.S("added", "analysis", definition="added definition", props=[rt.P("ap", [1.5], "float", unit="s")],
                    secs=[rt.S("deeper", "mytype")])
    new_prop = rt.P("added", ["v", "w"], "string", unit="u", definition="added definition")
    out = [
        # attributes of the Document
        ("document.author:changed", [st(D, "author", "Someone Else")], one),
        ("document.author:unset", [st(D, "author", None)], one),
        ("document.version:changed", [st(D, "version", "1.1")], one),
        ("document.date:set", [st(D, "date", {"date": "2020-01-02"})], one),
        # attributes of a Section
        ("section.definition:changed", [st(S0, "definition", "second definition")], one),
        ("section.definition:unset", [st(S0, "definition", None)], one),
        ("section.definition:set", [st(SUB, "definition", "a definition")], one),
        ("section.reference:set", [st(S0, "reference", "doi:10.1000/182")], one),
        ("section.name:changed", [st(S0, "name", "renamed")], one),
        ("section.type:changed", [st(S0, "type", "other")], every),
        ("section.type:into-a-mapped-type", [st(S0, "type", "analysis")], every),
        ("section.type:into-an-unmapped-type", [st(SUB, "type", "t")], every),
        ("section.type:into-a-custom-mapped-type", [st(SUB, "type", "mytype")], every),
        ("section.type:into-another-mapped-type", [st(S1, "type", "analysis/psth")], every),
        # attributes of a Property
        ("property.name:changed", [st(S0, "name", "renamed", "p")], one),
        ("property.unit:changed", [st(S0, "unit", "V", "p")], one),
        ("property.unit:unset", [st(S0, "unit", None, "p")], one),
        ("property.unit:set", [st(S0, "unit", "u", "q")], one),
        ("property.uncertainty:changed", [st(SUB, "uncertainty", 0.5, "f")], one),
        ("property.uncertainty:changed-to-0", [st(SUB, "uncertainty", 0, "f")], one),
        ("property.uncertainty:unset", [st(SUB, "uncertainty", None, "f")], one),
        ("property.uncertainty:set", [st(S0, "uncertainty", 0.125, "p")], one),
        ("property.definition:changed", [st(SUB, "definition", "another definition", "f")], one),
        ("property.definition:unset", [st(SUB, "definition", None, "f")], one),
        ("property.definition:set", [st(S0, "definition", "a definition", "p")], one),
        ("property.reference:set", [st(S0, "reference", "pref", "p")], one),
        ("property.value_origin:set", [st(S0, "value_origin", "file.dat", "p")], one),
        ("property.dtype:changed", [st(S0, "dtype", "text", "q")], one),
        # the values of a Property
        ("values:replaced-same-length", [vals("values", "p", [3, 4])], one),
        ("values:replaced-longer", [vals("values", "p", [3, 4, 5])], one),
        ("values:replaced-shorter", [vals("values", "p", [7])], one),
        ("values:replaced-text", [vals("values", "q", ["y", "x"])], one),
        ("values:replaced-float", [vals("values", "f", [0.1], SUB)], one),
        ("values:emptied", [vals("values", "p", [])], one),
        ("values:filled", [vals("values", "e", [5, 6])], one),
        ("values:append", [vals("append", "p", 3)], one),
        ("values:append-text", [vals("append", "q", "z")], one),
        ("values:append-to-empty", [vals("append", "e", 1)], one),
        ("values:extend", [vals("extend", "p", [3, 4])], one),
        ("values:remove", [vals("remove-value", "p", 1)], one),
        ("values:item-assigned", [vals("setitem", "p", [0, 9])], one),
        ("values:insert", [vals("insert-value", "p", [0, 0])], one),
        ("values:several-properties", [vals("append", "p", 3), vals("values", "q", ["only"]), vals("values", "f", [2.5, 3.5, 4.5], SUB)], one),
        # Sections added / removed
        ("section:added-to-the-document", [{"op": "add-section", "at": D, "spec": new_leaf}], one),
        ("section:added-to-a-section", [{"op": "add-section", "at": S0, "spec": new_leaf}], one),
        ("section:added-to-a-leaf", [{"op": "add-section", "at": S1, "spec": new_leaf}], one),
        ("section:subtree-added", [{"op": "append-section", "at": SUB, "spec": new_tree}], every),
        ("section:inserted-first", [{"op": "insert-section", "at": D, "spec": new_tree}], one),
        ("section:leaf-removed", [{"op": "remove-section", "at": D, "name": "s1"}], one),
        ("section:nested-removed", [{"op": "remove-section", "at": S0, "name": "sub"}], one),
        ("section:subtree-removed", [{"op": "remove-section", "at": D, "name": "s0"}], one),
        ("section:replaced-by-one-of-the-same-name", [{"op": "remove-section", "at": D, "name": "s1"},
                                                      {"op": "add-section", "at": D, "spec": rt.S("s1", "t", definition="the other s1")}], one),
        # Properties added / removed
        ("property:added", [{"op": "add-property", "at": S0, "spec": new_prop}], one),
        ("property:added-to-an-empty-section", [{"op": "append-property", "at": S1, "spec": new_prop}], one),
        ("property:added-without-values", [{"op": "add-property", "at": SUB, "spec": rt.P("added", [], "string")}], one),
        ("property:inserted-first", [{"op": "insert-property", "at": S0, "spec": new_prop}], one),
        ("property:removed", [{"op": "remove-property", "at": S0, "name": "p"}], one),
        ("property:last-removed", [{"op": "remove-property", "at": SUB, "name": "f"}], one),
        ("property:empty-removed", [{"op": "remove-property", "at": S0, "name": "e"}], one),
        ("property:replaced-by-one-of-the-same-name", [{"op": "remove-property", "at": S0, "name": "p"},
                                                       {"op": "add-property", "at": S0, "spec": rt.P("p", [1, 2], "int", unit="mV")}], one),
    ]
    return out


def docs_edits(listed):
    """Edits of `writer.docs` itself; `listed`: the writer was created with a list of two documents."""
    change_old = {"op": "set", "at": [0, "s0"], "prop": None, "attr": "definition", "value": "second definition"}
    out = [
        ("docs:appended", [{"op": "docs-append", "spec": _new_doc("a")}]),
        ("docs:inserted-first", [{"op": "docs-insert", "spec": _new_doc("a")}]),
        ("docs:replaced", [{"op": "docs-replace", "index": 0, "spec": _new_doc("a")}]),
        ("docs:other-list-assigned", [{"op": "docs-assign", "keep": False, "specs": [_new_doc("a")]}]),
        ("docs:extended-list-assigned", [{"op": "docs-assign", "keep": True, "specs": [_new_doc("a"), _new_doc("b")]}]),
        ("docs:appended+section.definition:changed", [{"op": "docs-append", "spec": _new_doc("a")}, change_old]),
        ("docs:appended-twice", [{"op": "docs-append", "spec": _new_doc("a")}, {"op": "docs-append", "spec": _new_doc("b")}]),
    ]
    if listed:
        out += [("docs:removed", [{"op": "docs-remove", "index": 0}]),
                ("docs:removed+section.definition:changed", [{"op": "docs-remove", "index": 1}, change_old]),
                ("docs:reversed", [{"op": "docs-reverse"}])]
    return out


def two_edits():
    """Two edits with an export after each: back to the first state, the same edit again, another kind of edit."""
    S0 = [0, "s0"]

    def st(value):
        return {"op": "set", "at": S0, "prop": None, "attr": "definition", "value": value}
    app = {"op": "append", "at": S0, "prop": "p", "arg": 3}
    return [
        ("section.definition:changed;changed-back", [[st("second definition")], [st("first definition")]]),
        ("section.definition:changed;changed-again", [[st("second definition")], [st("third definition")]]),
        ("values:append;append", [[app], [dict(app, arg=4)]]),
        ("values:append;remove", [[app], [{"op": "remove-value", "at": S0, "prop": "p", "arg": 3}]]),
        ("section:added;removed", [[{"op": "add-section", "at": S0, "spec": rt.S("added", "t")}],
                                   [{"op": "remove-section", "at": S0, "name": "added"}]]),
        ("property:removed;added-again", [[{"op": "remove-property", "at": S0, "name": "p"}],
                                          [{"op": "add-property", "at": S0, "spec": rt.P("p", [1, 2], "int", unit="mV")}]]),
        ("docs:appended;removed", [[{"op": "docs-append", "spec": _new_doc("a")}], [{"op": "docs-remove", "index": 1}]]),
        ("docs:appended;section.definition:changed", [[{"op": "docs-append", "spec": _new_doc("a")}], [st("second definition")]]),
        ("section.definition:changed;docs:appended", [[st("second definition")], [{"op": "docs-append", "spec": _new_doc("a")}]]),
    ]


def call_sequences(tier, n):
    """Sequences of n+1 export calls [entry, serialisation] around n edits."""
    if tier == "quick":
        pairs = [[["string", "turtle"], ["string", "turtle"]], [["string", "turtle"], ["string", "xml"]],
                 [["string", "xml"], ["string", "json-ld"]], [["string", "nt"], ["file", "nt"]], [["file", "nt"], ["file", "nt"]],
                 [["file", "xml"], ["string", "n3"]], [["str", "turtle"], ["str", "turtle"]], [["string", "turtle"], ["str", "turtle"]],
                 [["str", "turtle"], ["string", "nt"]], [["graph", None], ["string", "turtle"]], [["string", "turtle"], ["graph", None]]]
    else:
        calls = [["string", f] for f in FORMATS] + [["file", f] for f in FORMATS] + [["str", "turtle"], ["graph", None]]
        pairs = [[a, b] for a in calls for b in calls]
    return [p + [p[i % 2] for i in range(n - 1)] for p in pairs]


def layer_writer_state(tier):
    for listed in (False, True):
        more = [_second_doc()] if listed else []
        tag = "list" if listed else "single"
        for label, steps, sub in entity_edits():
            yield {"layer": "W", "spec": _tree_base(), "more": more, "edits": [steps], "calls": call_sequences(tier, 1),
                   "tags": {"edit": label, "documents": tag}, "sub": sub}
        for label, steps in docs_edits(listed):
            yield {"layer": "W", "spec": _tree_base(), "more": more, "edits": [steps], "calls": call_sequences(tier, 1),
                   "tags": {"edit": label, "documents": tag}, "sub": ["on", "custom"]}
    for label, groups in two_edits():
        yield {"layer": "W", "spec": _tree_base(), "more": [], "edits": groups, "calls": call_sequences(tier, 2),
               "tags": {"edit": label, "documents": "single"}, "sub": ["on"]}


def run_case(case):
    scratch = env.fresh_dir("c10")
    try:
        return _run(case, scratch)
    finally:
        env.drop_dir(scratch)


def _run(case, scratch):
    import odml
    import rdflib
    from odml.tools.rdf_converter import RDFWriter, RDFReader
    from odml.tools.odmlparser import ODMLReader
    if case["layer"] == "W":
        return _run_writer_state(case, scratch)
    fails = []
    tags = case["tags"]

    def fail(clause, entry, observed=None, field=None, fmt=None, sub=None):
        fails.append(report.failure("rdf", {
            "clause": clause, "entry": entry, "rdf_format": fmt, "subclassing": sub, "layer": case["layer"], "field": field,
            "dtype": tags.get("dtype"), "atoms": rt.features(tags.get("atoms", [])), "n_values": tags.get("n_values"),
            "attr": tags.get("attr"), "element": tags.get("element"), "documents": tags.get("documents")},
            case, observed=observed))
    try:
        documents = [docs.build(s) for s in [case["spec"]] + case.get("more", [])]
    except Exception as exc:
        return {"failures": [], "outcomes": ["not-buildable:" + type(exc).__name__], "nontrivial": 0, "execs": 0}
    before = [snapshot.snap(d, identity=True) for d in documents]
    want = sorted((project(snapshot.snap(d)) for d in documents), key=lambda s: snapshot.canon(s["id"]))
    execs = 0

    def subclass_fn(mode):
        if mode == "off":
            return None
        table = dict(DEFAULT_SUBCLASSES)
        if mode == "custom":
            table.update(CUSTOM)
        return lambda sec: table.get(sec.type)

    def writer(mode):
        arg = documents if len(documents) > 1 else documents[0]
        if mode == "off":
            return RDFWriter(arg, rdf_subclassing=False)
        if mode == "custom":
            return RDFWriter(arg, custom_subclasses=dict(CUSTOM))
        return RDFWriter(arg)

    for sub in case["sub"]:
        # the graph the writer builds
        try:
            g = writer(sub).convert_to_rdf()
            execs += 1
        except Exception as exc:
            fail("export-raises", "convert_to_rdf", "%s: %s" % (type(exc).__name__, str(exc)[:160]), sub=sub)
            continue
        for clause, detail in rdf_shape.violations(g, documents, subclass_fn(sub))[:3]:
            fail("graph-shape:" + clause, "convert_to_rdf", detail, sub=sub,
                 field=detail[1] if isinstance(detail, tuple) and len(detail) > 1 and isinstance(detail[1], str) else None)
        for fmt in case["fmts"]:
            for entry in case["entries"]:
                label = entry
                path = os.path.join(scratch, "out" + EXT[fmt])
                if os.path.exists(path):
                    os.unlink(path)
                try:
                    if entry == "string-writer-used-twice":
                        # one writer object asked twice (e.g. for two serialisations): the second answer is judged
                        wr = writer(sub)
                        wr.get_rdf_str("xml")
                        text = wr.get_rdf_str(fmt)
                    elif entry in ("string", "string-reader-used-twice"):
                        text = writer(sub).get_rdf_str(fmt)
                    elif entry == "file":
                        writer(sub).write_file(path, fmt)
                        with open(path) as fh:
                            text = fh.read()
                    else:
                        if sub != "on":
                            continue      # odml.save has no sub-classing options
                        odml.save(documents[0], path, "RDF", rdf_format=fmt)
                        with open(path) as fh:
                            text = fh.read()
                    execs += 1
                except Exception as exc:
                    fail("export-raises", label, "%s: %s" % (type(exc).__name__, str(exc)[:160]), fmt=fmt, sub=sub)
                    continue
                # the serialised text, parsed with plain rdflib
                try:
                    g2 = rdflib.Graph().parse(data=text, format=fmt)
                    for clause, detail in rdf_shape.violations(g2, documents, subclass_fn(sub))[:2]:
                        fail("serialised-shape:" + clause, label, detail, fmt=fmt, sub=sub)
                except Exception as exc:
                    fail("serialised-text-not-parseable", label, "%s: %s" % (type(exc).__name__, str(exc)[:160]), fmt=fmt, sub=sub)
                    continue
                # import
                try:
                    if entry == "string-reader-used-twice":
                        # one reader object asked twice: the second answer is judged
                        rd = RDFReader()
                        rd.from_string(text, fmt)
                        back = rd.from_string(text, fmt)
                    elif entry.startswith("string"):
                        back = RDFReader().from_string(text, fmt)
                    elif entry == "file":
                        back = RDFReader().from_file(path, fmt)
                    else:
                        back = ODMLReader("RDF", show_warnings=False).from_file(path, fmt)
                    execs += 1
                except Exception as exc:
                    fail("import-raises", label, "%s: %s" % (type(exc).__name__, str(exc)[:160]), fmt=fmt, sub=sub)
                    continue
                if len(back) != len(documents):
                    fail("import-returns-another-number-of-documents", label, [len(back), len(documents)], fmt=fmt, sub=sub)
                    continue
                got = sorted((project(snapshot.snap(d)) for d in back), key=lambda s: snapshot.canon(s["id"]))
                if got != want:
                    df = snapshot.diff(want, got)
                    fail("imported-document-differs", label, snapshot.short(df), field=rt.field_of(df[0]), fmt=fmt, sub=sub)
    if [snapshot.snap(d, identity=True) for d in documents] != before:
        fail("export-changed-the-documents", "any", None)
    nontrivial = 1
    return {"failures": fails, "outcomes": ["exported"], "nontrivial": nontrivial, "execs": max(execs, 1)}


# --------------------------------------------------------------------------- layer W: execution

def _resolve(documents, step):
    obj = documents[step["at"][0]]
    for name in step["at"][1:]:
        obj = obj.sections[name]
    if step.get("prop"):
        obj = obj.properties[step["prop"]]
    return obj


def apply_step(step, documents, wr):
    """One step of an edit, through the public API of the library (documents: the objects the writer was created with)."""
    op = step["op"]
    if op == "set":
        setattr(_resolve(documents, step), step["attr"], docs.dec(step["value"]))
    elif op == "values":
        _resolve(documents, step).values = [docs.dec(v) for v in step["arg"]]
    elif op == "append":
        _resolve(documents, step).append(docs.dec(step["arg"]))
    elif op == "extend":
        _resolve(documents, step).extend([docs.dec(v) for v in step["arg"]])
    elif op == "remove-value":
        _resolve(documents, step).remove(docs.dec(step["arg"]))
    elif op == "setitem":
        _resolve(documents, step)[step["arg"][0]] = docs.dec(step["arg"][1])
    elif op == "insert-value":
        _resolve(documents, step).insert(step["arg"][0], docs.dec(step["arg"][1]))
    elif op == "add-section":
        docs.build_section(step["spec"], _resolve(documents, step))
    elif op == "append-section":
        _resolve(documents, step).append(docs.build_section(step["spec"]))
    elif op == "insert-section":
        _resolve(documents, step).insert(0, docs.build_section(step["spec"]))
    elif op == "add-property":
        docs.build_property(step["spec"], _resolve(documents, step))
    elif op == "append-property":
        _resolve(documents, step).append(docs.build_property(step["spec"]))
    elif op == "insert-property":
        _resolve(documents, step).insert(0, docs.build_property(step["spec"]))
    elif op == "remove-section":
        parent = _resolve(documents, step)
        parent.remove(parent.sections[step["name"]])
    elif op == "remove-property":
        parent = _resolve(documents, step)
        parent.remove(parent.properties[step["name"]])
    elif op == "docs-append":
        wr.docs.append(docs.build(step["spec"]))
    elif op == "docs-insert":
        wr.docs.insert(0, docs.build(step["spec"]))
    elif op == "docs-replace":
        wr.docs[step["index"]] = docs.build(step["spec"])
    elif op == "docs-remove":
        del wr.docs[step["index"]]
    elif op == "docs-reverse":
        wr.docs.reverse()
    elif op == "docs-assign":
        wr.docs = (list(wr.docs) if step["keep"] else []) + [docs.build(sp) for sp in step["specs"]]
    else:
        raise env.HarnessError("unknown edit step %r" % op)


def _run_writer_state(case, scratch):
    import rdflib
    from odml.tools.rdf_converter import RDFWriter, RDFReader
    fails = []
    outcomes = []
    tags = case["tags"]
    execs = 0

    def fail(clause, position, call, earlier, observed=None, field=None, sub=None):
        fails.append(report.failure("rdf", {
            "clause": clause, "entry": "%s-of-a-used-writer" % call[0], "rdf_format": call[1], "subclassing": sub, "layer": "W",
            "field": field, "edit": tags["edit"].split(":")[0], "position": position},
            case, observed={"edit": tags["edit"], "documents": tags["documents"], "earlier_call": earlier, "what": observed}))

    def subclass_fn(mode):
        if mode == "off":
            return None
        table = dict(DEFAULT_SUBCLASSES)
        if mode == "custom":
            table.update(CUSTOM)
        return lambda sec: table.get(sec.type)

    for sub in case["sub"]:
        for seq in case["calls"]:
            try:
                documents = [docs.build(s) for s in [case["spec"]] + case.get("more", [])]
            except Exception as exc:
                return {"failures": [], "outcomes": ["not-buildable:" + type(exc).__name__], "nontrivial": 0, "execs": 0}
            arg = documents if len(documents) > 1 else documents[0]
            if sub == "off":
                wr = RDFWriter(arg, rdf_subclassing=False)
            elif sub == "custom":
                wr = RDFWriter(arg, custom_subclasses=dict(CUSTOM))
            else:
                wr = RDFWriter(arg)
            rd = RDFReader()                 # one reader imports every export of the sequence
            for pos, call in enumerate(seq):
                earlier = seq[pos - 1] if pos else None
                position = "first-call" if pos == 0 else "after-edit-%d" % pos
                if pos:
                    try:
                        for step in case["edits"][pos - 1]:
                            apply_step(step, documents, wr)
                    except env.HarnessError:
                        raise
                    except Exception as exc:
                        # the library refused the edit: nothing to export (the edits are the business of C03-C06)
                        outcomes.append("edit-raises:%s:%s" % (tags["edit"], type(exc).__name__))
                        break
                now = list(wr.docs)          # what the writer is asked to export at the time of this call
                before = [snapshot.snap(d, identity=True) for d in now]
                want = sorted((project(snapshot.snap(d)) for d in now), key=lambda s: snapshot.canon(s["id"]))
                entry, fmt = call
                path = os.path.join(scratch, "out" + EXT[fmt]) if entry == "file" else None
                try:
                    if entry == "graph":
                        graph, text = wr.convert_to_rdf(), None
                    elif entry == "string":
                        text = wr.get_rdf_str(fmt)
                    elif entry == "str":
                        text = str(wr)
                    else:
                        wr.write_file(path, fmt)     # the file of the earlier call, if any, is written over
                        with open(path, encoding="utf-8") as fh:
                            text = fh.read()
                    execs += 1
                except Exception as exc:
                    fail("export-raises", position, call, earlier, "%s: %s" % (type(exc).__name__, str(exc)[:160]), sub=sub)
                    break
                if [snapshot.snap(d, identity=True) for d in now] != before:
                    fail("export-changed-the-documents", position, call, earlier, sub=sub)
                if text is None:
                    for clause, detail in rdf_shape.violations(graph, now, subclass_fn(sub))[:2]:
                        fail("graph-shape:" + clause, position, call, earlier, detail, sub=sub)
                    continue
                try:
                    g2 = rdflib.Graph().parse(data=text, format=fmt)
                    for clause, detail in rdf_shape.violations(g2, now, subclass_fn(sub))[:2]:
                        fail("serialised-shape:" + clause, position, call, earlier, detail, sub=sub)
                except Exception as exc:
                    fail("serialised-text-not-parseable", position, call, earlier,
                         "%s: %s" % (type(exc).__name__, str(exc)[:160]), sub=sub)
                    continue
                try:
                    back = rd.from_file(path, fmt) if entry == "file" else rd.from_string(text, fmt)
                    execs += 1
                except Exception as exc:
                    fail("import-raises", position, call, earlier, "%s: %s" % (type(exc).__name__, str(exc)[:160]), sub=sub)
                    continue
                if len(back) != len(now):
                    fail("import-returns-another-number-of-documents", position, call, earlier, [len(back), len(now)], sub=sub)
                    continue
                got = sorted((project(snapshot.snap(d)) for d in back), key=lambda s: snapshot.canon(s["id"]))
                if got != want:
                    df = snapshot.diff(want, got)
                    fail("imported-document-differs", position, call, earlier, snapshot.short(df), field=rt.field_of(df[0]), sub=sub)
            else:
                outcomes.append("exported-again-after:" + tags["edit"].split(":")[0])
    return {"failures": fails, "outcomes": sorted(set(outcomes)), "nontrivial": 1, "execs": max(execs, 1)}


def check(tier):
    run = report.Run(PROP, tier, LEVEL, RULE, assumptions=[
        "repository round trip and hasFileName are not judged (statement silent); cardinalities, dependencies, links are not "
        "carried by RDF and not compared",
        "the uncertainty is compared as a number; an attribute holding the empty string counts as unset",
        "sibling order is projected away (children sorted by id)",
        "layer W (one writer / reader object used for several exports while the documents are edited in between): the "
        "documents a call exports are the entries of writer.docs at the time of the call, as they are then; every export of "
        "the sequence is judged with the same shape reference and import comparison as a first export",
        "not enumerated, outside the statement: a tuple of documents (the constructor documents a list or one document; the "
        "quantifier speaks of documents and lists), text with control characters XML 1.0 cannot hold (no RDF/XML text can "
        "carry them and the statement has no 'must raise' clause; C07 counts them among the failure causes of serialisation; "
        "nt, json-ld, turtle and n3 carry them)",
    ])
    cases = gen_cases(tier)
    layers = {}
    for c in cases:
        layers[c["layer"]] = layers.get(c["layer"], 0) + 1
    for k, v in sorted(layers.items()):
        run.layer(k, documents=v)
    run.bounds = {"value_list_length": 2, "max_sections": 3 if tier == "quick" else 5, "documents_per_export": 3,
                  "serialisations": FORMATS, "edits_between_exports_of_one_writer": 2,
                  "call_sequences_per_edit": len(call_sequences(tier, 1))}
    par.run_cases(run, "checks.c10", cases, nchunks=par.JOBS * 16)
    return run.finish(reproduce=lambda f: replay(f))


def replay(rec):
    env.reset_globals(env.SEED)
    return run_case(rec["case"])["failures"]
