"""C11 - copies handed out are equal to, and independent of, the original.

Every node of a document family as clone / export_leaf root x all flag combinations, the lists
handed out by `values` and passed in as `values`, TemplateHandler.clone_section; followed by
every edit sequence of length <=1 (all copy points) and <=2 (quick: selected copy points;
thorough: 3) applied to the copy with the original watched, and symmetrically."""
import itertools
import os

from mc import env, par, report, snapshot
from ref import tree

PROP = "C11"
LEVEL = "model_checking"
RULE = ("copy points (clone of every node x children x keep_id, export_leaf of every node, values getter, "
        "values passed in, template clone_section) x all edit sequences up to the bound from an edit alphabet "
        "touching every mutable piece of state, applied to the copy and, symmetrically, to the original; "
        "non-trivial = the edit sequence changed the edited side")
WATCHDOG_S = 60


def build_doc():
    import odml
    # repositories on the Document and on one Section: the Sections below them have none of their own (they inherit)
    doc = odml.Document(author="me", version="1", repository="file:///nonexistent-odml-verif/doc_terms.xml")
    a = odml.Section(name="A", type="t", parent=doc, definition="defA",
                     repository="file:///nonexistent-odml-verif/sec_terms.xml")
    odml.Property(name="p_int", values=[1, 2], parent=a, unit="mV", uncertainty=0.5, val_cardinality=(1, 4))
    odml.Property(name="p_str", values=["x"], parent=a, definition="d")
    odml.Property(name="p_tup", values=["(1;2)", "(3;4)"], dtype="2-tuple", parent=a)
    aa = odml.Section(name="AA", type="t", parent=a, sec_cardinality=(0, 5))
    odml.Property(name="p_date", values=["2020-01-02"], dtype="date", parent=aa)
    odml.Section(name="AAA", type="t", parent=aa)
    b = odml.Section(name="B", type="t", parent=doc, prop_cardinality=(0, 5))
    odml.Property(name="q", values=[0.5], parent=b)
    odml.Section(name="BB", type="t", parent=b)
    # objects created without a name (the id serves as name)
    odml.Section(type="t", parent=b)
    odml.Property(values=[3], parent=aa)
    lnk = odml.Section(name="L", type="t", parent=a)
    lnk.link = "/B"
    return doc


def nodes(root):
    """BFS list of all objects below (and including) root."""
    out, todo = [], [root]
    while todo:
        o = todo.pop(0)
        out.append(o)
        secs, props = tree.children(o)
        todo.extend(props)
        todo.extend(secs)
    return out


def node_tag(o):
    return snapshot.kind_of(o)


# --------------------------------------------------------------------------- copy points

def copy_points():
    doc = build_doc()
    pts = []
    for i, o in enumerate(nodes(doc)):
        k = node_tag(o)
        if k == "property":
            for keep in (False, True):
                pts.append(["clone", i, None, keep])
            pts.append(["values-getter", i])
            pts.append(["values-passed-in", i])
            pts.append(["values-passed-to-constructor", i])
        else:
            for ch in (True, False):
                for keep in (False, True):
                    pts.append(["clone", i, ch, keep])
        if k != "document":
            pts.append(["export_leaf", i])
    pts.append(["template-clone", None, True, False])
    pts.append(["template-clone", None, False, True])
    return pts


def ids_of(root):
    return [o.id for o in nodes(root)]


def identities(root):
    """ids (in the Python sense) of every odML object, value list and nested list below root."""
    out = set()
    for o in nodes(root):
        out.add(id(o))
        if node_tag(o) == "property":
            out.add(id(o._values))
            for v in o._values:
                if isinstance(v, list):
                    out.add(id(v))
        else:
            out.add(id(o.sections))
            if node_tag(o) == "section":
                out.add(id(o.properties))
    return out


def make_copy(doc, pt, scratch):
    """Returns (kind, original_root, copy_root_or_list, fails)"""
    import odml
    fails = []
    allnodes = nodes(doc)
    k = pt[0]
    if k == "clone":
        orig = allnodes[pt[1]]
        if node_tag(orig) == "property":
            cp = orig.clone(keep_id=pt[3])
        else:
            cp = orig.clone(children=pt[2], keep_id=pt[3])
        if getattr(cp, "parent", None) is not None:
            fails.append(("copy-is-not-detached", None))
        children = pt[2] is not False
        so, sc = snapshot.snap(orig, ids=False), snapshot.snap(cp, ids=False)
        if not children:
            so = dict(so)
            if "sections" in so:
                so["sections"] = []
            if "properties" in so:
                so["properties"] = []
        if so != sc:
            fails.append(("copy-differs-from-original", snapshot.short(snapshot.diff(so, sc))))
        if children:
            try:
                if not (cp == orig):
                    fails.append(("copy-not-equal-by-library-comparison", None))
            except Exception as exc:
                fails.append(("library-comparison-raises", type(exc).__name__))
        if not children and (tree.children(cp)[0] or tree.children(cp)[1]):
            fails.append(("children-false-copy-has-children", None))
        shared = identities(orig) & identities(cp)
        if shared:
            fails.append(("copy-shares-objects-with-original", "%d shared" % len(shared)))
        oi, ci = ids_of(orig), ids_of(cp)
        if pt[3]:
            if children and oi != ci:
                fails.append(("keep_id-copy-has-different-ids", None))
            if not children and cp.id != orig.id:
                fails.append(("keep_id-copy-has-different-ids", None))
        else:
            if set(ci) & set(ids_of(doc)):
                fails.append(("copy-reuses-ids-of-the-original", "%r" % sorted(set(ci) & set(ids_of(doc)))[:2]))
            if len(set(ci)) != len(ci):
                fails.append(("copy-ids-not-pairwise-distinct", None))
        return "object", orig, cp, fails
    if k == "export_leaf":
        orig = allnodes[pt[1]]
        cp = orig.export_leaf()
        # expected: chain root -> object, every Section on it with clones of all its Properties
        chain = []
        node = orig if node_tag(orig) == "section" else orig.parent
        while node is not None:
            chain.insert(0, node)
            node = node.parent
        exp = None
        for c in reversed(chain):
            s = snapshot.snap(c)
            s["sections"] = [exp] if exp is not None else []
            exp = s
        got = snapshot.snap(cp)
        if got != exp:
            fails.append(("export_leaf-is-not-the-chain-with-all-properties", snapshot.short(snapshot.diff(exp, got))))
        if identities(doc) & identities(cp):
            fails.append(("copy-shares-objects-with-original", None))
        return "object", doc, cp, fails
    if k == "values-getter":
        orig = allnodes[pt[1]]
        return "list", orig, orig.values, fails
    if k == "values-passed-in":
        orig = allnodes[pt[1]]
        lst = [list(v) if isinstance(v, list) else v for v in orig.values]
        orig.values = lst
        return "list", orig, lst, fails
    if k == "values-passed-to-constructor":
        src = allnodes[pt[1]]
        lst = [list(v) if isinstance(v, list) else v for v in src.values]
        orig = odml.Property(name="fresh", values=lst, dtype=src.dtype)
        return "list", orig, lst, fails
    if k == "template-clone":
        from odml.templates import TemplateHandler
        from odml.tools.xmlparser import XMLWriter
        tdoc = build_doc()
        tdoc.clean()
        path = os.path.join(scratch, "template.xml")
        XMLWriter(tdoc).write_file(path)
        handler = TemplateHandler()
        url = "file://" + path
        cp = handler.clone_section(url, "A", children=pt[2], keep_id=pt[3])
        orig = handler.load(url)["A"]
        if cp.parent is not None:
            fails.append(("copy-is-not-detached", None))
        if identities(orig) & identities(cp):
            fails.append(("copy-shares-objects-with-original", None))
        if pt[2]:
            if snapshot.snap(orig, ids=False) != snapshot.snap(cp, ids=False):
                fails.append(("copy-differs-from-original", None))
        elif tree.children(cp)[0] or tree.children(cp)[1]:
            fails.append(("children-false-copy-has-children", None))
        if not pt[3] and set(ids_of(cp)) & set(ids_of(orig)):
            fails.append(("copy-reuses-ids-of-the-original", None))
        if pt[3] and pt[2] and ids_of(cp) != ids_of(orig):
            fails.append(("keep_id-copy-has-different-ids", None))
        return "object", orig, cp, fails
    raise ValueError(pt)


# --------------------------------------------------------------------------- edits

SEC_EDITS = ["rename", "retype", "definition", "add-section", "add-property", "remove-first-section",
             "remove-first-property", "reorder-last-section", "sec_cardinality", "prop_cardinality",
             "merge-into", "clean", "repository", "reference", "new_id"]
PROP_EDITS = ["append", "insert0", "setitem0", "remove-first", "values", "nested-mutation", "rename", "unit",
              "uncertainty", "dtype-string", "val_cardinality", "value_origin", "getitem-mutation", "new_id"]
DOC_EDITS = ["author", "add-section", "remove-first-section", "date", "clean", "finalize", "new_id"]
LIST_EDITS = ["list-append", "list-setitem0", "list-nested-setitem", "list-clear", "list-nested-append"]


def apply_edit(root, idx, edit):
    """Apply edit to the idx-th node below root. Returns False if not applicable."""
    import odml
    ns = nodes(root)
    if idx >= len(ns):
        return False
    o = ns[idx]
    k = node_tag(o)
    try:
        if k == "property":
            if edit not in PROP_EDITS:
                return False
            v = o.values
            if edit == "append":
                o.append(v[0] if v else 1)
            elif edit == "insert0":
                o.insert(0, v[0] if v else 1)
            elif edit == "setitem0":
                if not v:
                    return False
                o[0] = v[-1]
                if len(v) == 1:
                    o[0] = ["9", "9"] if isinstance(v[0], list) else v[0]
                    if not isinstance(v[0], list):
                        return False
            elif edit == "remove-first":
                if not v:
                    return False
                o.remove(v[0])
            elif edit == "values":
                o.values = []
            elif edit == "nested-mutation":
                got = o.values
                if not got or not isinstance(got[0], list):
                    return False
                got[0][0] = "mutated"
                # a list returned by values was edited; the Property itself must not change
                return "returned-list"
            elif edit == "getitem-mutation":
                if not v or not isinstance(v[0], list):
                    return False
                o[0][0] = "mutated"
            elif edit == "rename":
                o.name = "renamed"
            elif edit == "unit":
                o.unit = "changed"
            elif edit == "uncertainty":
                o.uncertainty = 9.5
            elif edit == "dtype-string":
                if o.dtype in ("string", None) or (o.dtype or "").endswith("tuple"):
                    return False
                o.dtype = "string"
            elif edit == "val_cardinality":
                o.val_cardinality = (0, 9)
            elif edit == "value_origin":
                o.value_origin = "changed"
            elif edit == "new_id":
                o.new_id()
        else:
            edits = SEC_EDITS if k == "section" else DOC_EDITS
            if edit not in edits:
                return False
            secs, props = tree.children(o)
            if edit == "rename":
                o.name = "renamed"
            elif edit == "retype":
                o.type = "changed"
            elif edit == "definition":
                o.definition = "changed"
            elif edit == "reference":
                o.reference = "changed"
            elif edit == "repository":
                o._repository = "changed"
            elif edit == "author":
                o.author = "changed"
            elif edit == "date":
                o.date = "2000-01-01"
            elif edit == "add-section":
                odml.Section(name="added", type="t", parent=o)
            elif edit == "add-property":
                odml.Property(name="added", values=[1], parent=o)
            elif edit == "remove-first-section":
                if not secs:
                    return False
                o.remove(secs[0])
            elif edit == "remove-first-property":
                if not props:
                    return False
                o.remove(props[0])
            elif edit == "reorder-last-section":
                if len(secs) < 2:
                    return False
                secs[-1].reorder(0)
            elif edit == "sec_cardinality":
                o.sec_cardinality = (0, 9)
            elif edit == "prop_cardinality":
                o.prop_cardinality = (0, 9)
            elif edit == "merge-into":
                other = odml.Section(name="m", type="t")
                odml.Property(name="merged_in", values=[3], parent=other)
                odml.Section(name="merged_sec", type="t", parent=other)
                o.merge(other, strict=False)
            elif edit == "clean":
                o.clean()
            elif edit == "finalize":
                o.finalize()
            elif edit == "new_id":
                o.new_id()
    except Exception:
        return "raised"
    return True


def apply_list_edit(lst, edit):
    try:
        if edit == "list-append":
            lst.append(lst[0] if lst else 1)
        elif edit == "list-setitem0":
            if not lst:
                return False
            lst[0] = lst[-1] if len(lst) > 1 else ("zz" if not isinstance(lst[0], list) else ["9", "9"])
        elif edit == "list-nested-setitem":
            if not lst or not isinstance(lst[0], list):
                return False
            lst[0][0] = "mutated"
        elif edit == "list-nested-append":
            if not lst or not isinstance(lst[0], list):
                return False
            lst[0].append("extra")
        elif edit == "list-clear":
            del lst[:]
    except Exception:
        return "raised"
    return True


# --------------------------------------------------------------------------- cases

DEEP_POINTS = [["clone", 0, True, False], ["clone", 1, True, False], ["clone", 1, True, True],
               ["export_leaf", 6], ["clone", 5, None, False]]


def gen_cases(tier):
    env.install()
    pts = copy_points()
    n_nodes = len(nodes(build_doc()))
    all_edits = sorted(set(SEC_EDITS + PROP_EDITS + DOC_EDITS))
    cases = []
    for pt in pts:
        cases.append({"point": pt, "side": "copy", "edits": []})
        if pt[0].startswith("values"):
            for e in LIST_EDITS:
                cases.append({"point": pt, "side": "copy", "edits": [[None, e]]})
            for e in PROP_EDITS:
                cases.append({"point": pt, "side": "original", "edits": [[pt[1], e]]})
            continue
        scratch = env.fresh_dir("c11g")
        try:
            kind, orig, cp, _ = make_copy(build_doc(), pt, scratch)
        finally:
            env.drop_dir(scratch)
        for side, root in (("copy", cp), ("original", orig)):
            for i, o in enumerate(nodes(root)):
                k = node_tag(o)
                for e in {"property": PROP_EDITS, "section": SEC_EDITS, "document": DOC_EDITS}[k]:
                    cases.append({"point": pt, "side": side, "edits": [[i, e]]})
    depth = 2 if tier == "quick" else 3
    idxs = range(0, 8)
    edits2 = ["rename", "add-property", "remove-first-property", "append", "setitem0", "getitem-mutation",
              "merge-into", "clean", "values", "nested-mutation", "remove-first-section", "new_id"]
    for pt in DEEP_POINTS:
        for side in ("copy", "original"):
            seqs = itertools.product(itertools.product(idxs, edits2), repeat=2)
            for seq in seqs:
                cases.append({"point": pt, "side": side, "edits": [list(x) for x in seq]})
            if depth >= 3:
                e3 = ["rename", "remove-first-property", "getitem-mutation", "merge-into", "clean"]
                for seq in itertools.product(itertools.product(range(0, 6), e3), repeat=3):
                    cases.append({"point": pt, "side": side, "edits": [list(x) for x in seq]})
    return cases


def run_case(case):
    if case["point"][0] != "template-clone":
        return _run_case(case, None)
    scratch = env.fresh_dir("c11")
    try:
        return _run_case(case, scratch)
    finally:
        env.drop_dir(scratch)


def _run_case(case, scratch):
    doc = build_doc()
    pt = case["point"]
    fails = []

    def fail(clause, observed=None, explain=""):
        fails.append(report.failure("copies", {
            "clause": clause, "copy_point": pt[0],
            "node": node_tag(nodes(build_doc_cached())[pt[1]]) if pt[1] is not None else "template-section",
            "children": pt[2] if len(pt) > 2 else None, "keep_id": pt[3] if len(pt) > 3 else None,
            "side_edited": case["side"], "edits": [e[1] for e in case["edits"]]}, case,
            observed=observed, explain=explain))
    try:
        kind, orig, cp, cfails = make_copy(doc, pt, scratch)
    except Exception as exc:
        fail("copy-operation-raises", "%s: %s" % (type(exc).__name__, exc))
        return {"failures": fails, "outcomes": ["copy-raises"], "nontrivial": 1, "execs": 1}
    if not case["edits"]:
        for clause, obs in cfails:
            fail(clause, obs)
        return {"failures": fails, "outcomes": ["copy-only"], "nontrivial": 1, "execs": 1}
    applied = 0
    if kind == "list":
        watch_before = snapshot.snap(orig)
        lst_before = snapshot.atom(cp)
        if case["side"] == "copy":
            for _, e in case["edits"]:
                r = apply_list_edit(cp, e)
                if r is False:
                    return {"failures": [], "outcomes": ["edit-not-applicable"], "nontrivial": 0, "execs": 0, "states": 0}
            if snapshot.snap(orig) != watch_before:
                fail("edit-of-handed-out-or-passed-in-list-changed-the-property",
                     snapshot.short(snapshot.diff(watch_before, snapshot.snap(orig))))
            applied = 1
        else:
            for i, e in case["edits"]:
                r = apply_edit(orig, 0, e)
                if r is False or r == "returned-list":
                    return {"failures": [], "outcomes": ["edit-not-applicable"], "nontrivial": 0, "execs": 0, "states": 0}
            if snapshot.atom(cp) != lst_before:
                fail("edit-of-the-property-changed-the-handed-out-or-passed-in-list",
                     "%r -> %r" % (lst_before, snapshot.atom(cp)))
            applied = int(snapshot.snap(orig) != watch_before)
        return {"failures": fails, "outcomes": ["list-edit"], "nontrivial": applied, "execs": 1}
    edited, watched = (cp, orig) if case["side"] == "copy" else (orig, cp)
    wroot = watched
    if case["side"] == "copy" and pt[0] != "template-clone":
        wroot = doc                   # watch the whole original document
    before_w = snapshot.snap(wroot)
    before_e = snapshot.snap(edited)
    for i, e in case["edits"]:
        r = apply_edit(edited, i, e)
        if r is False:
            return {"failures": [], "outcomes": ["edit-not-applicable"], "nontrivial": 0, "execs": 0, "states": 0}
    after_w = snapshot.snap(wroot)
    if after_w != before_w:
        d = snapshot.diff(before_w, after_w)
        fail("edit-of-one-side-changed-the-other", snapshot.short(d),
             explain="edits %r on the %s changed the %s at %s" % (
                 case["edits"], case["side"], "original" if case["side"] == "copy" else "copy", d[0] if d else "?"))
    return {"failures": fails, "outcomes": ["edited"], "nontrivial": int(snapshot.snap(edited) != before_e), "execs": 1}


_DOC_CACHE = []


def build_doc_cached():
    if not _DOC_CACHE:
        _DOC_CACHE.append(build_doc())
    return _DOC_CACHE[0]


def check(tier):
    run = report.Run(PROP, tier, LEVEL, RULE, assumptions=[
        "one document family member (every dtype class incl. tuples, cardinalities, one resolved link) carries all copy points",
        "the library's == ignores ids; snapshots compare everything else including order",
    ])
    cases = gen_cases(tier)
    run.bounds = {"copy_points": len(copy_points()), "edit_sequences": "length 1 everywhere; length 2 (quick) / 3 "
                  "(thorough) at %d selected copy points" % len(DEEP_POINTS)}
    run.layer("cases", cases=len(cases))
    par.run_cases(run, "checks.c11", cases, nchunks=par.JOBS * 16)
    return run.finish(reproduce=lambda f: replay(f))


def replay(rec):
    env.reset_globals(env.SEED)
    return run_case(rec["case"])["failures"]
