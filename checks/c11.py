"""C11 - copies handed out are equal to, and independent of, the original.

Every node of a document family as clone / export_leaf root x all flag combinations, the lists
handed out by `values` and passed in as `values`, TemplateHandler.clone_section; followed by
every edit sequence of length <=1 (all copy points) and <=2 (quick: selected copy points;
thorough: 3) applied to the copy with the original watched, and symmetrically.

Document family: `main` (every kind of node, cardinalities, repositories, unnamed objects, one resolved
link), `dtypes` (one Property per data type family and per spelling of the type name the library
accepts - the type name is stored as given) and `links` (resolved links that took over definition and
reference from a target with children). At the copy points of `links` whose copy carries link state the
edits go to BOTH sides in every interleaving (clean / resolve / unlink / finalize, edits of the link
target): each side must end up like its *twin* - same document, same copy made, same own edits, the
other side never touched."""
import itertools
import os

from mc import env, par, report, snapshot
from ref import tree

PROP = "C11"
LEVEL = "model_checking"
RULE = ("copy points (clone of every node x children x keep_id, export_leaf of every node, values getter, "
        "values passed in, template clone_section) x all edit sequences up to the bound from an edit alphabet "
        "touching every mutable piece of state, applied to the copy and, symmetrically, to the original; copies that "
        "carry link state: edits on both sides in every interleaving, each side compared with its twin that saw "
        "only its own edits; non-trivial = the edit sequence changed the edited side")
WATCHDOG_S = 60


def build_doc():
    import odml
    # repositories on the Document and on one Section: the Sections below them have none of their own (they inherit)
    doc = odml.Document(author="me", version="1", repository="file:///nonexistent-odml-verif/doc_terms.xml")
    a = odml.Section(name="A", type="t", parent=doc, definition="defA",
                     repository="file:///nonexistent-odml-verif/sec_terms.xml")
    odml.Property(name="p_int", values=[1, 2], parent=a, unit="mV", uncertainty=0.5, val_cardinality=(1, 4))
    odml.Property(name="p_str", values=["x"], parent=a, definition="d")
    odml.Property(name="p_tup", values=["(1;2)", "(3;4)"], dtype="2-tuple", parent=a)
    aa = odml.Section(name="AA", type="t", parent=a, sec_cardinality=(0, 5))
    odml.Property(name="p_date", values=["2020-01-02"], dtype="date", parent=aa)
    odml.Section(name="AAA", type="t", parent=aa)
    b = odml.Section(name="B", type="t", parent=doc, prop_cardinality=(0, 5))
    odml.Property(name="q", values=[0.5], parent=b)
    odml.Section(name="BB", type="t", parent=b)
    # objects created without a name (the id serves as name)
    odml.Section(type="t", parent=b)
    odml.Property(values=[3], parent=aa)
    lnk = odml.Section(name="L", type="t", parent=a)
    lnk.link = "/B"
    return doc


def build_dtypes_doc():
    """One Property per data type family and per accepted spelling of its name (stored as given)."""
    import odml
    doc = odml.Document(author="me")
    sec = odml.Section(name="S", type="t", parent=doc)
    for i, (dtype, values) in enumerate(DTYPE_MEMBERS):
        odml.Property(name="p%02d" % i, values=list(values), dtype=dtype, parent=sec)
    return doc


DTYPE_MEMBERS = [
    ("int", [1, 2]), ("INT", [1, 2]), ("float", [0.5]), ("string", ["x", "y"]), ("String", ["x"]),
    ("text", ["a\nb"]), ("boolean", [True, False]), ("date", ["2020-01-02"]), ("Date", ["2020-01-02"]),
    ("time", ["10:11:12"]), ("datetime", ["2020-01-02 10:11:12"]), ("url", ["http://example.org/x"]),
    ("person", ["me"]),
    ("2-tuple", ["(1;2)", "(3;4)"]), ("2-Tuple", ["(1;2)", "(3;4)"]), ("2-TUPLE", ["(1;2)"]),
    ("3-tuple", ["(1;2;3)"]), ("3-Tuple", ["(1;2;3)", "(4;5;6)"]),
]


def build_links_doc():
    """Resolved links: L took over definition and reference from T, M (own definition) only the
    reference; T has a Property and a child Section with a Property, L an own Property."""
    import odml
    doc = odml.Document(author="me")
    t = odml.Section(name="T", type="t", parent=doc, definition="defT", reference="refT")
    odml.Property(name="tp", values=[1, 2], parent=t)
    tc = odml.Section(name="TC", type="t", parent=t)
    odml.Property(name="tcp", values=["x"], parent=tc)
    lnk = odml.Section(name="L", type="t", parent=doc)
    odml.Property(name="lp", values=["own"], parent=lnk)
    lnk._link = "/T"
    m = odml.Section(name="M", type="t", parent=doc, definition="defM")
    m._link = "/T"
    doc.finalize()
    return doc


DOCS = {"main": build_doc, "dtypes": build_dtypes_doc, "links": build_links_doc}
DOC_ORDER = ["main", "dtypes", "links"]


def build(name):
    return DOCS[name or "main"]()


def nodes(root):
    """BFS list of all objects below (and including) root."""
    out, todo = [], [root]
    while todo:
        o = todo.pop(0)
        out.append(o)
        secs, props = tree.children(o)
        todo.extend(props)
        todo.extend(secs)
    return out


def node_tag(o):
    return snapshot.kind_of(o)


# --------------------------------------------------------------------------- copy points

def copy_points(docname="main"):
    doc = build(docname)
    pts = []
    for i, o in enumerate(nodes(doc)):
        k = node_tag(o)
        if k == "property":
            for keep in (False, True):
                pts.append(["clone", i, None, keep])
            pts.append(["values-getter", i])
            pts.append(["values-passed-in", i])
            pts.append(["values-passed-to-constructor", i])
        else:
            for ch in (True, False):
                for keep in (False, True):
                    pts.append(["clone", i, ch, keep])
        if k != "document":
            pts.append(["export_leaf", i])
    if docname == "main":
        pts.append(["template-clone", None, True, False])
        pts.append(["template-clone", None, False, True])
    return pts


def ids_of(root):
    return [o.id for o in nodes(root)]


def identities(root):
    """ids (in the Python sense) of every odML object, value list and nested list below root."""
    out = set()
    for o in nodes(root):
        out.add(id(o))
        if node_tag(o) == "property":
            out.add(id(o._values))
            for v in o._values:
                if isinstance(v, list):
                    out.add(id(v))
        else:
            out.add(id(o.sections))
            if node_tag(o) == "section":
                out.add(id(o.properties))
    return out


def make_copy(doc, pt, scratch):
    """Returns (kind, original_root, copy_root_or_list, fails)"""
    import odml
    fails = []
    allnodes = nodes(doc)
    k = pt[0]
    if k == "clone":
        orig = allnodes[pt[1]]
        if node_tag(orig) == "property":
            cp = orig.clone(keep_id=pt[3])
        else:
            cp = orig.clone(children=pt[2], keep_id=pt[3])
        if getattr(cp, "parent", None) is not None:
            fails.append(("copy-is-not-detached", None))
        children = pt[2] is not False
        so, sc = snapshot.snap(orig, ids=False), snapshot.snap(cp, ids=False)
        if not children:
            so = dict(so)
            if "sections" in so:
                so["sections"] = []
            if "properties" in so:
                so["properties"] = []
        if so != sc:
            fails.append(("copy-differs-from-original", snapshot.short(snapshot.diff(so, sc))))
        if children:
            try:
                if not (cp == orig):
                    fails.append(("copy-not-equal-by-library-comparison", None))
            except Exception as exc:
                fails.append(("library-comparison-raises", type(exc).__name__))
        if not children and (tree.children(cp)[0] or tree.children(cp)[1]):
            fails.append(("children-false-copy-has-children", None))
        shared = identities(orig) & identities(cp)
        if shared:
            fails.append(("copy-shares-objects-with-original", "%d shared" % len(shared)))
        oi, ci = ids_of(orig), ids_of(cp)
        if pt[3]:
            if children and oi != ci:
                fails.append(("keep_id-copy-has-different-ids", None))
            if not children and cp.id != orig.id:
                fails.append(("keep_id-copy-has-different-ids", None))
        else:
            if set(ci) & set(ids_of(doc)):
                fails.append(("copy-reuses-ids-of-the-original", "%r" % sorted(set(ci) & set(ids_of(doc)))[:2]))
            if len(set(ci)) != len(ci):
                fails.append(("copy-ids-not-pairwise-distinct", None))
        return "object", orig, cp, fails
    if k == "export_leaf":
        orig = allnodes[pt[1]]
        cp = orig.export_leaf()
        # expected: chain root -> object, every Section on it with clones of all its Properties
        chain = []
        node = orig if node_tag(orig) == "section" else orig.parent
        while node is not None:
            chain.insert(0, node)
            node = node.parent
        exp = None
        for c in reversed(chain):
            s = snapshot.snap(c)
            s["sections"] = [exp] if exp is not None else []
            exp = s
        got = snapshot.snap(cp)
        if got != exp:
            fails.append(("export_leaf-is-not-the-chain-with-all-properties", snapshot.short(snapshot.diff(exp, got))))
        if identities(doc) & identities(cp):
            fails.append(("copy-shares-objects-with-original", None))
        return "object", doc, cp, fails
    if k == "values-getter":
        orig = allnodes[pt[1]]
        return "list", orig, orig.values, fails
    if k == "values-passed-in":
        orig = allnodes[pt[1]]
        lst = [list(v) if isinstance(v, list) else v for v in orig.values]
        orig.values = lst
        return "list", orig, lst, fails
    if k == "values-passed-to-constructor":
        src = allnodes[pt[1]]
        lst = [list(v) if isinstance(v, list) else v for v in src.values]
        orig = odml.Property(name="fresh", values=lst, dtype=src.dtype)
        return "list", orig, lst, fails
    if k == "template-clone":
        from odml.templates import TemplateHandler
        from odml.tools.xmlparser import XMLWriter
        tdoc = build_doc()
        tdoc.clean()
        path = os.path.join(scratch, "template.xml")
        XMLWriter(tdoc).write_file(path)
        handler = TemplateHandler()
        url = "file://" + path
        cp = handler.clone_section(url, "A", children=pt[2], keep_id=pt[3])
        orig = handler.load(url)["A"]
        if cp.parent is not None:
            fails.append(("copy-is-not-detached", None))
        if identities(orig) & identities(cp):
            fails.append(("copy-shares-objects-with-original", None))
        if pt[2]:
            if snapshot.snap(orig, ids=False) != snapshot.snap(cp, ids=False):
                fails.append(("copy-differs-from-original", None))
        elif tree.children(cp)[0] or tree.children(cp)[1]:
            fails.append(("children-false-copy-has-children", None))
        if not pt[3] and set(ids_of(cp)) & set(ids_of(orig)):
            fails.append(("copy-reuses-ids-of-the-original", None))
        if pt[3] and pt[2] and ids_of(cp) != ids_of(orig):
            fails.append(("keep_id-copy-has-different-ids", None))
        return "object", orig, cp, fails
    raise ValueError(pt)


# --------------------------------------------------------------------------- edits

SEC_EDITS = ["rename", "retype", "definition", "add-section", "add-property", "remove-first-section",
             "remove-first-property", "reorder-last-section", "sec_cardinality", "prop_cardinality",
             "merge-into", "clean", "repository", "reference", "new_id", "resolve", "unlink"]
PROP_EDITS = ["append", "insert0", "setitem0", "remove-first", "values", "nested-mutation", "rename", "unit",
              "uncertainty", "dtype-string", "val_cardinality", "value_origin", "getitem-mutation", "new_id",
              "returned-list-mutation", "nested-append"]
# edits of a list handed out by `values` (outer list, inner lists): the Property that handed it out - original
# or copy - must not change
RETURNED_LIST_EDITS = ("nested-mutation", "returned-list-mutation", "nested-append")
DOC_EDITS = ["author", "add-section", "remove-first-section", "date", "clean", "finalize", "new_id"]
LIST_EDITS = ["list-append", "list-setitem0", "list-nested-setitem", "list-clear", "list-nested-append"]


def apply_edit(root, idx, edit):
    """Apply edit to the idx-th node below root. Returns False if not applicable."""
    import odml
    ns = nodes(root)
    if idx >= len(ns):
        return False
    o = ns[idx]
    k = node_tag(o)
    try:
        if k == "property":
            if edit not in PROP_EDITS:
                return False
            v = o.values
            if edit == "append":
                o.append(v[0] if v else 1)
            elif edit == "insert0":
                o.insert(0, v[0] if v else 1)
            elif edit == "setitem0":
                if not v:
                    return False
                o[0] = v[-1]
                if len(v) == 1:
                    o[0] = ["9", "9"] if isinstance(v[0], list) else v[0]
                    if not isinstance(v[0], list):
                        return False
            elif edit == "remove-first":
                if not v:
                    return False
                o.remove(v[0])
            elif edit == "values":
                o.values = []
            elif edit == "nested-mutation":
                got = o.values
                if not got or not isinstance(got[0], list):
                    return False
                got[0][0] = "mutated"
                # a list returned by values was edited; the Property itself must not change
                return "returned-list"
            elif edit == "nested-append":
                got = o.values
                if not got or not isinstance(got[-1], list):
                    return False
                got[-1].append("extra")
                got[-1].reverse()
                return "returned-list"
            elif edit == "returned-list-mutation":
                got = o.values
                got.append(got[0] if got else 1)
                got[0] = got[-1] if len(got) > 2 else ("zz" if not isinstance(got[0], list) else ["9", "9"])
                del got[-1]
                return "returned-list"
            elif edit == "getitem-mutation":
                if not v or not isinstance(v[0], list):
                    return False
                o[0][0] = "mutated"
            elif edit == "rename":
                o.name = "renamed"
            elif edit == "unit":
                o.unit = "changed"
            elif edit == "uncertainty":
                o.uncertainty = 9.5
            elif edit == "dtype-string":
                if (o.dtype or "string").lower() == "string" or (o.dtype or "").lower().endswith("tuple"):
                    return False
                o.dtype = "string"
            elif edit == "val_cardinality":
                o.val_cardinality = (0, 9)
            elif edit == "value_origin":
                o.value_origin = "changed"
            elif edit == "new_id":
                o.new_id()
        else:
            edits = SEC_EDITS if k == "section" else DOC_EDITS
            if edit not in edits:
                return False
            secs, props = tree.children(o)
            if edit == "rename":
                o.name = "renamed"
            elif edit == "retype":
                o.type = "changed"
            elif edit == "definition":
                o.definition = "changed"
            elif edit == "reference":
                o.reference = "changed"
            elif edit == "repository":
                o._repository = "changed"
            elif edit == "author":
                o.author = "changed"
            elif edit == "date":
                o.date = "2000-01-01"
            elif edit == "add-section":
                odml.Section(name="added", type="t", parent=o)
            elif edit == "add-property":
                odml.Property(name="added", values=[1], parent=o)
            elif edit == "remove-first-section":
                if not secs:
                    return False
                o.remove(secs[0])
            elif edit == "remove-first-property":
                if not props:
                    return False
                o.remove(props[0])
            elif edit == "reorder-last-section":
                if len(secs) < 2:
                    return False
                secs[-1].reorder(0)
            elif edit == "sec_cardinality":
                o.sec_cardinality = (0, 9)
            elif edit == "prop_cardinality":
                o.prop_cardinality = (0, 9)
            elif edit == "merge-into":
                other = odml.Section(name="m", type="t")
                odml.Property(name="merged_in", values=[3], parent=other)
                odml.Section(name="merged_sec", type="t", parent=other)
                o.merge(other, strict=False)
            elif edit == "clean":
                o.clean()
            elif edit == "resolve":
                # the documented high level call: resolves the link / include of this Section (again)
                if o.link is None and o.include is None:
                    return False
                o.merge()
            elif edit == "unlink":
                if o.link is None:
                    return False
                o.link = None
            elif edit == "finalize":
                o.finalize()
            elif edit == "new_id":
                o.new_id()
    except Exception:
        return "raised"
    return True


def apply_list_edit(lst, edit):
    try:
        if edit == "list-append":
            lst.append(lst[0] if lst else 1)
        elif edit == "list-setitem0":
            if not lst:
                return False
            lst[0] = lst[-1] if len(lst) > 1 else ("zz" if not isinstance(lst[0], list) else ["9", "9"])
        elif edit == "list-nested-setitem":
            if not lst or not isinstance(lst[0], list):
                return False
            lst[0][0] = "mutated"
        elif edit == "list-nested-append":
            if not lst or not isinstance(lst[0], list):
                return False
            lst[0].append("extra")
        elif edit == "list-clear":
            del lst[:]
    except Exception:
        return "raised"
    return True


# --------------------------------------------------------------------------- cases

DEEP_POINTS = [["clone", 0, True, False], ["clone", 1, True, False], ["clone", 1, True, True],
               ["export_leaf", 6], ["clone", 5, None, False]]


# Two-sided layer (document `links`): the edits that use or change link / merge state, and edits of the
# link target and of taken-over content
LINK_EDITS = ["clean", "finalize", "resolve", "unlink", "definition", "reference", "rename", "values",
              "remove-first-property", "remove-first-section"]
LINK_EDITS3 = ["clean", "finalize", "resolve", "definition", "values"]
KIND_EDITS = {"property": PROP_EDITS, "section": SEC_EDITS, "document": DOC_EDITS}


def carries_link_state(root):
    return any(node_tag(o) == "section" and o.is_merged for o in nodes(root))


def gen_cases(tier):
    env.install()
    cases = []
    depth = 2 if tier == "quick" else 3
    for docname in DOC_ORDER:
        tagd = {} if docname == "main" else {"doc": docname}     # cases of `main` keep their recorded form
        for pt in copy_points(docname):
            cases.append(dict(tagd, point=pt, side="copy", edits=[]))
            if pt[0].startswith("values"):
                for e in LIST_EDITS:
                    cases.append(dict(tagd, point=pt, side="copy", edits=[[None, e]]))
                for e in PROP_EDITS:
                    cases.append(dict(tagd, point=pt, side="original", edits=[[pt[1], e]]))
                continue
            scratch = env.fresh_dir("c11g")
            try:
                doc = build(docname)
                kind, orig, cp, _ = make_copy(doc, pt, scratch)
            finally:
                env.drop_dir(scratch)
            for side, root in (("copy", cp), ("original", orig)):
                for i, o in enumerate(nodes(root)):
                    for e in KIND_EDITS[node_tag(o)]:
                        cases.append(dict(tagd, point=pt, side=side, edits=[[i, e]]))
            if docname != "links" or not carries_link_state(cp):
                continue
            # both sides edited, every interleaving that really has both sides in it; the original side is
            # the whole document (the link target lies outside a cloned linking Section)
            alpha = {}
            for side, root, edits in (("copy", cp, LINK_EDITS), ("original", doc, LINK_EDITS)):
                alpha[side] = [[side, i, e] for i, o in enumerate(nodes(root))
                               for e in edits if e in KIND_EDITS[node_tag(o)]]
            for first, second in (("copy", "original"), ("original", "copy")):
                for x in alpha[first]:
                    for y in alpha[second]:
                        cases.append(dict(tagd, point=pt, side="both", edits=[x, y]))
            if depth >= 3:
                a3 = {sd: [x for x in alpha[sd] if x[2] in LINK_EDITS3] for sd in alpha}
                for pattern in itertools.product(("copy", "original"), repeat=3):
                    if len(set(pattern)) < 2:
                        continue
                    for seq in itertools.product(*[a3[sd] for sd in pattern]):
                        cases.append(dict(tagd, point=pt, side="both", edits=[list(x) for x in seq]))
    idxs = range(0, 8)
    edits2 = ["rename", "add-property", "remove-first-property", "append", "setitem0", "getitem-mutation",
              "merge-into", "clean", "values", "nested-mutation", "remove-first-section", "new_id"]
    for pt in DEEP_POINTS:
        for side in ("copy", "original"):
            seqs = itertools.product(itertools.product(idxs, edits2), repeat=2)
            for seq in seqs:
                cases.append({"point": pt, "side": side, "edits": [list(x) for x in seq]})
            if depth >= 3:
                e3 = ["rename", "remove-first-property", "getitem-mutation", "merge-into", "clean"]
                for seq in itertools.product(itertools.product(range(0, 6), e3), repeat=3):
                    cases.append({"point": pt, "side": side, "edits": [list(x) for x in seq]})
    return cases


def run_case(case):
    if case["point"][0] != "template-clone":
        return _run_case(case, None)
    scratch = env.fresh_dir("c11")
    try:
        return _run_case(case, scratch)
    finally:
        env.drop_dir(scratch)


NOT_APPLICABLE = {"failures": [], "outcomes": ["edit-not-applicable"], "nontrivial": 0, "execs": 0, "states": 0}


def _run_case(case, scratch):
    docname = case.get("doc", "main")
    doc = build(docname)
    pt = case["point"]
    fails = []

    def fail(clause, observed=None, explain=""):
        fails.append(report.failure("copies", {
            "clause": clause, "copy_point": pt[0], "doc": docname,
            "node": node_tag(nodes(build_doc_cached(docname))[pt[1]]) if pt[1] is not None else "template-section",
            "children": pt[2] if len(pt) > 2 else None, "keep_id": pt[3] if len(pt) > 3 else None,
            "side_edited": case["side"] if case["side"] != "both" else [e[0] for e in case["edits"]],
            "edits": [e[-1] for e in case["edits"]], "pre": list(PRE_TAGS)}, case,
            observed=observed, explain=explain))
    try:
        kind, orig, cp, cfails = make_copy(doc, pt, scratch)
    except Exception as exc:
        fail("copy-operation-raises", "%s: %s" % (type(exc).__name__, exc))
        return {"failures": fails, "outcomes": ["copy-raises"], "nontrivial": 1, "execs": 1}
    if not case["edits"]:
        for clause, obs in cfails:
            fail(clause, obs)
        return {"failures": fails, "outcomes": ["copy-only"], "nontrivial": 1, "execs": 1}
    applied = 0
    if kind == "list":
        watch_before = snapshot.snap(orig)
        lst_before = snapshot.atom(cp)
        if case["side"] == "copy":
            for _, e in case["edits"]:
                r = apply_list_edit(cp, e)
                if r is False:
                    return dict(NOT_APPLICABLE)
            if snapshot.snap(orig) != watch_before:
                fail("edit-of-handed-out-or-passed-in-list-changed-the-property",
                     snapshot.short(snapshot.diff(watch_before, snapshot.snap(orig))))
            applied = 1
        else:
            for i, e in case["edits"]:
                r = apply_edit(orig, 0, e)
                if r is False or r == "returned-list":
                    return dict(NOT_APPLICABLE)
            if snapshot.atom(cp) != lst_before:
                fail("edit-of-the-property-changed-the-handed-out-or-passed-in-list",
                     "%r -> %r" % (lst_before, snapshot.atom(cp)))
            applied = int(snapshot.snap(orig) != watch_before)
        return {"failures": fails, "outcomes": ["list-edit"], "nontrivial": applied, "execs": 1}
    if case["side"] == "both":
        return _run_two_sided(case, docname, doc, cp, fail, fails)
    edited, watched = (cp, orig) if case["side"] == "copy" else (orig, cp)
    wroot = watched
    if case["side"] == "copy" and pt[0] != "template-clone":
        wroot = doc                   # watch the whole original document
    before_w = snapshot.snap(wroot)
    before_e = snapshot.snap(edited)
    for i, e in case["edits"]:
        own_before = snapshot.snap(edited) if e in RETURNED_LIST_EDITS else None
        r = apply_edit(edited, i, e)
        if r is False:
            return dict(NOT_APPLICABLE)
        if r == "returned-list" and snapshot.snap(edited) != own_before:
            # the Property that handed the list out is a node of the edited side (a copy as well as an original)
            fail("edit-of-handed-out-or-passed-in-list-changed-the-property",
                 snapshot.short(snapshot.diff(own_before, snapshot.snap(edited))),
                 explain="%r on the %s: a list returned by values was edited, not the Property" % (e, case["side"]))
    after_w = snapshot.snap(wroot)
    if after_w != before_w:
        d = snapshot.diff(before_w, after_w)
        fail("edit-of-one-side-changed-the-other", snapshot.short(d),
             explain="edits %r on the %s changed the %s at %s" % (
                 case["edits"], case["side"], "original" if case["side"] == "copy" else "copy", d[0] if d else "?"))
    return {"failures": fails, "outcomes": ["edited"], "nontrivial": int(snapshot.snap(edited) != before_e), "execs": 1}


# ------------------------------------------------------------------ both sides edited: the twin oracle

_TWINS = {}


def twin(docname, pt, side, own):
    """(results, snapshot without ids) of `side` after its own edits alone: same document, same copy made,
    the other side never touched. A pure function of its arguments (ids are left out), kept per process."""
    key = snapshot.canon([docname, pt, side, own])
    if key not in _TWINS:
        doc = build(docname)
        _, _, cp, _ = make_copy(doc, pt, None)
        root = cp if side == "copy" else doc
        results = [apply_edit(root, i, e) for i, e in own]
        _TWINS[key] = (results, snapshot.snap(root, ids=False))
    return _TWINS[key]


def foreign_targets(cp, doc):
    """The Sections of the original document that Sections of the copy hold as merged equivalent."""
    theirs = set(id(o) for o in nodes(doc))
    return [o.get_merged_equivalent() for o in nodes(cp)
            if node_tag(o) == "section" and o.is_merged and id(o.get_merged_equivalent()) in theirs]


def targets_state(targets, doc):
    theirs = set(id(o) for o in nodes(doc))       # a removed target is not among the nodes any more
    return [[snapshot.snap(t), t.get_path(), id(t) in theirs] for t in targets]


# tags describing the pre-state of the comparison that is being judged (part of the failure description, so that a known
# finding can be matched narrowly); set by _run_two_sided
PRE_TAGS = []


def _run_two_sided(case, docname, doc, cp, fail, fails):
    """case["edits"] = [[side, node index, edit], ...]; the original side is the whole document."""
    pt = case["point"]
    roots = {"copy": cp, "original": doc}
    start = {sd: snapshot.snap(roots[sd]) for sd in roots}
    cur = dict(start)                     # last snapshot of each side; None once the side has been edited
    results = {"copy": [], "original": []}
    targets = foreign_targets(cp, doc)
    targets_at_copy_time = targets_state(targets, doc)
    baseline_defect = False
    for sd, i, e in case["edits"]:
        other = "original" if sd == "copy" else "copy"
        # A cloned linking Section keeps the link target *of the original document* as its merged equivalent (also below
        # Document.clone, where the copy has a target of its own), so clean / resolve / unlink / finalize on the copy
        # give another result once that target has been edited: known finding KF-C11-copy-keeps-the-original-link-target.
        # The comparison is made and tagged, so that nothing but this situation is matched by the finding.
        if sd == "copy" and targets and targets_state(targets, doc) != targets_at_copy_time:
            baseline_defect = True
        before = cur[other] if cur[other] is not None else snapshot.snap(roots[other])
        r = apply_edit(roots[sd], i, e)
        if r is False:
            return dict(NOT_APPLICABLE)
        results[sd].append(r)
        cur[sd] = None
        after = cur[other] = snapshot.snap(roots[other])
        if after != before:
            d = snapshot.diff(before, after)
            fail("edit-of-one-side-changed-the-other", snapshot.short(d),
                 explain="edit %r on the %s changed the %s at %s" % ([i, e], sd, other, d[0] if d else "?"))
    for sd in roots:
        if cur[sd] is None:
            cur[sd] = snapshot.snap(roots[sd])
    if not fails:
        for sd in ("original", "copy"):
            del PRE_TAGS[:]
            if sd == "copy" and baseline_defect:
                PRE_TAGS.append("copy-edited-after-the-original-link-target-it-still-refers-to-was-edited")
            own = [[i, e] for s_, i, e in case["edits"] if s_ == sd]
            # (in the twin every own edit finds its object: the other side's edits are all that differs)
            t_results, t_snap = twin(docname, pt, sd, own)
            mine = snapshot.strip(cur[sd])
            if results[sd] != t_results or mine != t_snap:
                d = snapshot.diff(t_snap, mine) if mine != t_snap else ("/outcomes", t_results, results[sd])
                fail("own-edits-have-another-effect-after-the-other-side-was-edited", snapshot.short(d),
                     explain="the %s went through %r; without the edits of the other side (%r) the same edits "
                             "leave it different at %s" % (sd, own, case["edits"], d[0] if d else "?"))
    del PRE_TAGS[:]
    changed = any(cur[sd] != start[sd] for sd in roots)
    return {"failures": fails, "outcomes": ["edited-both-sides"], "nontrivial": int(changed), "execs": 1}


_DOC_CACHE = {}


def build_doc_cached(docname="main"):
    if docname not in _DOC_CACHE:
        _DOC_CACHE[docname] = build(docname)
    return _DOC_CACHE[docname]


def check(tier):
    run = report.Run(PROP, tier, LEVEL, RULE, assumptions=[
        "three document family members carry all copy points: main (every kind of node, cardinalities, repositories, "
        "unnamed objects, one resolved link), dtypes (one Property per data type family and spelling of the type "
        "name), links (resolved links that took over definition / reference from a target with children)",
        "two-sided sequences use the link alphabet (clean, finalize, resolve, unlink, definition, reference, rename, "
        "values, remove first Property / Section) on every node of the copy and of the original document",
        "known finding KF-C11-copy-keeps-the-original-link-target: the twin comparison of a copy made after the link "
        "target in the ORIGINAL document - which the copy still holds as merged equivalent - has been edited is tagged",
        "the library's == ignores ids; snapshots compare everything else including order",
    ])
    cases = gen_cases(tier)
    run.bounds = {"copy_points": sum(len(copy_points(d)) for d in DOC_ORDER),
                  "edit_sequences": "length 1 everywhere; length 2 (quick) / 3 (thorough) at %d selected copy points "
                  "of main; both sides, length 2 (quick) / 3 (thorough, reduced alphabet), at every copy point of "
                  "links whose copy carries link state" % len(DEEP_POINTS)}
    run.layer("cases", cases=len(cases),
              two_sided=sum(1 for c in cases if c["side"] == "both"),
              **{"doc_" + d: sum(1 for c in cases if c.get("doc", "main") == d) for d in DOC_ORDER})
    par.run_cases(run, "checks.c11", cases, nchunks=par.JOBS * 16)
    return run.finish(reproduce=lambda f: replay(f))


def replay(rec):
    env.reset_globals(env.SEED)
    return run_case(rec["case"])["failures"]
