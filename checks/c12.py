"""C12 - resolving links and includes only adds copies; cleaning restores the document.

Every forest with <=4 (quick) / <=5 (thorough) Sections x every admissible (linker, target) pair
x path form x own-children variant, one and two simultaneous links, links and includes
(file: URLs); each followed by the history finalize, clean, finalize, finalize, clean, clean,
save/load, finalize.  Oracle: independent path resolver (ref/paths.py) and snapshot algebra."""
import itertools
import os

from gen import docs
from mc import env, par, report, snapshot
from ref import paths as refp, tree

PROP = "C12"
LEVEL = "model_checking"
RULE = ("all ordered forests with <=N Sections (distinct names, Properties on every node) x every ordered "
        "(linker, target) pair whose target is not the linker, an ancestor or a descendant x {absolute, relative, "
        "./relative} path x {own children of other names, same-named Property, same-named Section, ..., targets holding "
        "values whose equality is not reflexive or crosses types (nan, inf, -0.0, 1/1.0/True, big ints, empty "
        "Properties), content-equal twins} x {link, include}; all non-nested placements of two links; each with the history finalize/clean/finalize/"
        "finalize/clean/clean/save+load/finalize; non-trivial = finalize added at least one copy")
WATCHDOG_S = 4


def spec_for(shape, naming="unique"):
    """naming 'unique': every Section/Property name occurs once in the document (restoration law
    applies); 'positional': names repeat across branches (c0, c1, ... by sibling position), so
    parallel branches look alike.  Every Section carries a unique marker in `reference`."""
    def props(i):
        if i % 3 == 2:
            return []           # Sections without Properties: a leaf of this kind is an empty (falsy) Section
        ps = [{"name": "p%d" % i, "values": [i], "attrs": {"unit": "V"}}]
        if i % 2 == 0:
            ps.append({"name": "q%d" % i, "dtype": "string", "values": ["v%d" % i, "w"]})
        return ps
    secs = docs.name_forest(shape, props=props)
    n = [0]

    def mark(lst, depth):
        for k, sec in enumerate(lst):
            sec["attrs"] = {"reference": "node%d" % n[0], "definition": "def%d" % n[0]}
            if naming == "positional":
                # Section names only: Property names stay unique, so that a linker and a target in
                # look-alike branches share no child name and the restoration law applies to them
                sec["name"] = "c%d" % k
            n[0] += 1
            mark(sec["sections"], depth + 1)
    mark(secs, 0)
    return docs.doc_of(secs)


# Values and attributes for which equality is not reflexive, or not what identity of content suggests, in the
# target of a link / include: clean() recognises the copies it has to remove by comparing them with the target's
# children.  None of these variants makes the linking Section share a child name with its target, so the whole
# statement (restoration law included) applies.
NAN = float("nan")
INF = float("inf")
VALUE_VARIANTS = ("target-values-not-self-equal", "target-uncertainty-not-self-equal",
                  "target-values-equal-across-types", "content-twins")


def _sub(name, properties, sections=()):
    return {"name": name, "type": "t", "attrs": {"definition": "special values"}, "properties": properties,
            "sections": list(sections)}


def decorate_values(variant, tspec, lspec):
    """Adds the Properties / sub-Sections of a value variant to the spec of the target (and, for the twins, own
    children of other names to the spec of the linking Section; lspec None: the target lives in another file)."""
    def fl(name, values, **attrs):
        return {"name": name, "dtype": "float", "values": values, "attrs": dict(attrs)}
    if variant == "target-values-not-self-equal":
        # nan as a value: alone, among other floats, the same object twice, two nan objects, given as text;
        # in a Property of a sub-Section that gets copied as a whole, next to an ordinary Property, and one level deeper
        tspec["properties"] += [fl("nan_alone", [NAN]), fl("nan_among", [36.6, NAN, 36.9], unit="C"),
                                fl("nan_twice", [NAN, NAN]), fl("nan_two_objects", [float("nan"), -NAN]),
                                fl("nan_from_text", ["nan", "1.5"])]
        tspec["sections"].append(_sub("nansub", [fl("nan_inner", [NAN]), fl("plain_inner", [2.0], unit="Hz")],
                                      [_sub("nandeep", [fl("nan_deeper", [1.0, NAN])])]))
    elif variant == "target-uncertainty-not-self-equal":
        tspec["properties"] += [fl("nan_uncertainty", [1.0], uncertainty=NAN)]
        tspec["sections"].append(_sub("nansub", [fl("nan_uncertainty_inner", [2.0], uncertainty=NAN),
                                                 fl("plain_inner", [2.0])]))
    elif variant == "target-values-equal-across-types":
        # values that compare equal across types and Properties (1 == 1.0 == True, 0.0 == -0.0, 2**70 == float(2**70)),
        # infinities, ints beyond 64 bit, an echo of another Property's content under another name, Properties
        # without values, falsy / infinite uncertainties
        first = tspec["properties"][0] if tspec["properties"] else None
        tspec["properties"] += [
            {"name": "one_int", "dtype": "int", "values": [1]}, fl("one_float", [1.0]),
            {"name": "one_bool", "dtype": "boolean", "values": [True]}, {"name": "one_text", "dtype": "string", "values": ["1"]},
            fl("zero_neg_pos", [-0.0, 0.0]), fl("zero_pos_neg", [0.0, -0.0]), {"name": "zero_int", "dtype": "int", "values": [0, 0]},
            fl("infinite", [INF, -INF]),
            {"name": "big_int", "dtype": "int", "values": [2 ** 70, 2 ** 70 + 1, -10 ** 30]}, fl("big_float", [float(2 ** 70)]),
            {"name": "echo", "dtype": first.get("dtype") if first else "int", "values": list(first["values"]) if first else [1],
             "attrs": dict(first.get("attrs", {})) if first else {}},
            {"name": "empty", "values": []}, {"name": "empty_float", "dtype": "float", "values": []},
            fl("unc_zero", [1.0], uncertainty=0.0), fl("unc_neg_zero", [1.0], uncertainty=-0.0),
            fl("unc_inf", [1.0], uncertainty=INF), {"name": "unc_int", "dtype": "int", "values": [1], "attrs": {"uncertainty": 1}},
            fl("unc_float", [1.0], uncertainty=1.0)]
        tspec["sections"].append(_sub("valsub", [fl("zero_inner", [-0.0]), {"name": "empty_inner", "values": []},
                                                 {"name": "big_inner", "dtype": "int", "values": [2 ** 70]}]))
    elif variant == "content-twins":
        # two children of the target that are equal to each other in everything but the name (Properties, sub-Sections
        # with equal content below them), and own children of the linking Section that are equal in content to a child
        # of the target but carry another name
        def twin(name):
            return {"name": name, "dtype": "float", "values": [0.5, 1.5], "attrs": {"unit": "mV", "definition": "twin"}}

        def twinsec(name):
            return _sub(name, [twin("twin_inner"), {"name": "twin_text", "dtype": "string", "values": ["a"]}],
                        [_sub("twin_leaf", [])])
        tspec["properties"] += [twin("twin_a"), twin("twin_b")]
        tspec["sections"] += [twinsec("twinsec_a"), twinsec("twinsec_b")]
        if lspec is not None:
            lspec["properties"].append(twin("own_twin"))
            lspec["sections"].append(twinsec("own_twinsec"))


def file_view(s):
    """A snapshot as far as a file can hold it: XML keeps the uncertainty as text and the reader hands that text out
    (a decision, DESIGN 10.3: 3, 3.0 and '3.0' are the same uncertainty), so wherever one side of a comparison has been
    through a file the uncertainty is compared as a number."""
    if isinstance(s, dict):
        out = {k: file_view(v) for k, v in s.items()}
        u = s.get("uncertainty") if s.get("kind") == "property" else None
        if isinstance(u, list) and len(u) == 2 and u[0] in ("int", "float", "str"):
            text = u[1][1:-1] if u[0] == "str" else u[1]
            try:
                out["uncertainty"] = ["number", repr(float(text))]
            except ValueError:
                pass
        return out
    if isinstance(s, list):
        return [file_view(x) for x in s]
    return s


def by_marker(doc):
    out = {}
    for sec in refp.bfs_sections(doc):
        if sec.reference and sec.reference.startswith("node"):
            out[int(sec.reference[4:])] = sec
    return out


def preorder(spec):
    out = []

    def rec(lst):
        for s in lst:
            out.append(s)
            rec(s["sections"])
    rec(spec["sections"])
    return out


def gen_cases(tier):
    env.install()
    nmax = 5 if tier == "quick" else 6
    cases = []
    for n, naming in itertools.product(range(2, nmax + 1), ("unique", "positional")):
        for shape in docs.tree_shapes(n):
            doc = docs.build(spec_for(shape, naming))
            secs = refp.bfs_sections(doc)
            # index sections by pre-order (= spec order)
            pre = []

            def rec(c):
                for s in tree.children(c)[0]:
                    pre.append(s)
                    rec(s)
            rec(doc)
            pairs = []
            for li, l in enumerate(pre):
                for ti, t in enumerate(pre):
                    if not refp.related(l, t):
                        pairs.append((li, ti))
            for li, ti in pairs:
                for form in ("absolute", "relative", "dot-relative"):
                    for variant in ("other-names", "same-property", "same-section", "same-both", "same-section-other-type", "target-kinds-share-a-name", "same-definition",
                                    "target-has-unnamed-children", "target-side-repository", "linker-without-definition") + VALUE_VARIANTS:
                        for mech in ("link", "include", "include-whole-file"):
                            if mech != "link" and form != "absolute":
                                continue
                            if mech == "include-whole-file" and variant != "other-names":
                                continue
                            if naming == "positional" and mech != "link":
                                continue
                            cases.append({"shape": shape, "n": n, "links": [[li, ti, form]], "variant": variant,
                                          "mech": mech, "naming": naming})
            if n <= (5 if tier == "quick" else 5):
                for (l1, t1), (l2, t2) in itertools.combinations(pairs, 2):
                    if l1 == l2:
                        continue
                    objs = {"l1": pre[l1], "t1": pre[t1], "l2": pre[l2], "t2": pre[t2]}
                    # no target is, contains or lies inside another linking Section
                    if refp.related(objs["t1"], objs["l2"]) or refp.related(objs["t2"], objs["l1"]):
                        continue
                    if refp.related(objs["l1"], objs["l2"]):
                        continue
                    if refp.related(objs["t1"], objs["l1"]) or refp.related(objs["t2"], objs["l2"]):
                        continue
                    for form in ("absolute", "relative"):
                        cases.append({"shape": shape, "n": n, "links": [[l1, t1, form], [l2, t2, form]],
                                      "variant": "other-names", "mech": "link", "naming": naming})
    return cases


def build_case(case, scratch):
    """Returns (doc, [(linker, target_or_None, stored_reference)], target_doc_or_None)"""
    naming = case.get("naming", "unique")
    spec = spec_for(case["shape"], naming)
    pre = preorder(spec)
    plain = docs.build(spec_for(case["shape"], naming))
    ppre = []

    def rec(c):
        for s in tree.children(c)[0]:
            ppre.append(s)
            rec(s)
    rec(plain)
    include_doc = None
    for li, ti, form in case["links"]:
        l, t = ppre[li], ppre[ti]
        if case["mech"] == "link":
            if form == "absolute":
                path = refp.abs_path(t)
            else:
                path = refp.rel_path(l, t)
                if form == "dot-relative":
                    path = "./" + path
            pre[li]["attrs"]["link"] = path
        tspec = pre[ti]
        if case["variant"] == "same-definition":
            # the linking Section's own definition and reference read like the target's (nothing is filled in by the
            # merge, and clean must leave them alone)
            pre[li]["attrs"]["definition"] = tspec["attrs"]["definition"]
        if case["variant"] == "linker-without-definition":
            # nothing of the target stays behind after clean - also not its definition in a linking Section without one
            pre[li]["attrs"].pop("definition", None)
        if case["variant"] == "target-has-unnamed-children":
            # children of the target that were created without a name (their id serves as name)
            tspec["sections"].append({"name": None, "type": "t", "sections": [], "attrs": {"definition": "unnamed child"},
                                      "properties": [{"name": "inner", "values": [1]}]})
            tspec["properties"].append({"name": None, "values": [7]})
        if case["variant"] in VALUE_VARIANTS:
            decorate_values(case["variant"], tspec, pre[li])
        if case["variant"] == "target-side-repository":
            # the target carries a repository that the linking side does not share; its sub-Sections inherit it
            tspec["attrs"]["repository"] = "file:///nonexistent-odml-verif/target_terms.xml"
            if not tspec["sections"]:
                tspec["sections"].append({"name": "tsub", "type": "t", "sections": [], "attrs": {}, "properties": []})
        if case["variant"] == "target-kinds-share-a-name" and tspec["sections"]:
            # Sections and Properties have separate name spaces: the target owns a Property named like one of its
            # own sub-Sections (the linker shares no child name with it, so the restoration law applies)
            nm = tspec["sections"][0]["name"]
            if not any(x["name"] == nm for x in tspec["properties"]):
                tspec["properties"].append({"name": nm, "values": ["twin"], "dtype": "string"})
        if case["variant"] in ("same-property", "same-both") and tspec["properties"]:
            tp = tspec["properties"][0]
            if not any(x["name"] == tp["name"] for x in pre[li]["properties"]):
                pre[li]["properties"].append({"name": tp["name"], "values": [99], "attrs": {"unit": "mV"}})
        if case["variant"] in ("same-section", "same-both", "same-section-other-type") and tspec["sections"]:
            ts = tspec["sections"][0]
            if not any(x["name"] == ts["name"] for x in pre[li]["sections"]):
                pre[li]["sections"].append({"name": ts["name"], "sections": [],
                                            "type": ts["type"] + ("-other" if case["variant"] == "same-section-other-type" else ""),
                                            "attrs": {"definition": "own definition"},
                                            "properties": [{"name": "own", "values": [1]}]})
    if case["mech"] != "link":
        # the referenced tree lives in another file
        from odml.tools.xmlparser import XMLWriter
        li, ti, form = case["links"][0]
        tdoc_spec = spec_for(case["shape"], naming)
        tpre = preorder(tdoc_spec)
        if case["mech"] == "include-whole-file":
            # the include names no path: the first Section of the file is the target
            tdoc_spec["sections"] = [preorder(tdoc_spec)[ti]]
            url = "file://" + os.path.join(scratch, "target.xml")
        else:
            url = "file://" + os.path.join(scratch, "target.xml") + "#" + refp.abs_path(ppre[ti])
        if case["variant"] in VALUE_VARIANTS:
            # the referenced Section in the other file holds the same special content
            decorate_values(case["variant"], tpre[ti], None)
        include_doc = docs.build(tdoc_spec)
        XMLWriter(include_doc).write_file(os.path.join(scratch, "target.xml"))
        pre[li]["attrs"]["include"] = url
    doc = docs.build(spec)
    mk = by_marker(doc)
    links = []
    for li, ti, form in case["links"]:
        linker = mk[li]
        target = mk[ti] if case["mech"] == "link" else None
        links.append((linker, target))
    return doc, links, include_doc


def names_of(children):
    return [c.name for c in children]


def outside_snapshot(doc, linkers):
    """Snapshot of the document with the subtrees of the linking Sections cut out."""
    s = snapshot.snap(doc, identity=True)
    lids = set(id(x) for x in linkers)

    def cut(node):
        if node.get("@") in lids:
            return {"kind": "section", "@": node["@"], "cut": True}
        n = dict(node)
        if "sections" in n:
            n["sections"] = [cut(c) for c in n["sections"]]
        return n
    return cut(s)


def target_children(case, links, include_doc, k):
    """(sections, properties) of the k-th target, as live objects."""
    if case["mech"] == "link":
        return tree.children(links[k][1])
    if case["mech"] == "include-whole-file":
        return tree.children(tree.children(include_doc)[0][0])
    li, ti, form = case["links"][k]
    pre = []

    def rec(c):
        for s in tree.children(c)[0]:
            pre.append(s)
            rec(s)
    rec(include_doc)
    return tree.children(pre[ti])


def run_case(case):
    scratch = env.fresh_dir("c12")
    try:
        return _run(case, scratch)
    finally:
        env.drop_dir(scratch)


def _run(case, scratch):
    import odml
    from odml.tools.odmlparser import ODMLWriter, ODMLReader
    fails = []
    seen = set()

    def fail(clause, observed=None, explain="", step=None):
        if clause in seen:
            return
        seen.add(clause)
        fails.append(report.failure("links", {
            "clause": clause, "mechanism": case["mech"], "variant": case["variant"],
            "naming": case.get("naming", "unique"),
            "n_links": len(case["links"]), "path_form": case["links"][0][2], "step": step}, case,
            observed=observed, explain=explain))
    try:
        doc, links, include_doc = build_case(case, scratch)
    except Exception as exc:
        fail("building-the-document-raises", "%s: %s" % (type(exc).__name__, exc))
        return {"failures": fails, "outcomes": ["build-raises"], "nontrivial": 1, "execs": 1}
    linkers = [l for l, _ in links]
    shared_names = case["variant"] not in ("other-names", "target-kinds-share-a-name", "same-definition",
                                           "target-has-unnamed-children", "target-side-repository",
                                           "linker-without-definition") + VALUE_VARIANTS
    for k, (l, t) in enumerate(links):
        ts, tp = target_children(case, links, include_doc, k)
        ls, lp = tree.children(l)
        if set(names_of(ts)) & set(names_of(ls)) or set(names_of(tp)) & set(names_of(lp)):
            shared_names = True
    s0 = snapshot.snap(doc)
    out0 = outside_snapshot(doc, linkers)
    own = [(names_of(tree.children(l)[0]), names_of(tree.children(l)[1])) for l in linkers]
    own_snap = [snapshot.snap(l) for l in linkers]
    execs = 0
    added = 0

    def step(name, fn):
        try:
            fn()
            return True
        except Exception as exc:
            fail("%s-raises" % name, "%s: %s" % (type(exc).__name__, exc), step=name)
            return False

    def check_resolved(stepname, d=doc, lks=None):
        nonlocal added
        # the children of an included Section have been read from a file, their model is the in-memory original
        view = file_view if case["mech"] != "link" else (lambda x: x)
        lks = lks if lks is not None else links
        for k, (linker, target) in enumerate(lks):
            tsecs, tprops = target_children(case, links, include_doc, k)
            lsecs, lprops = tree.children(linker)
            own_s, own_p = own[k]
            for kind, tch, lch, own_names in (("section", tsecs, lsecs, own_s), ("property", tprops, lprops, own_p)):
                for tc in tch:
                    if tc.name in own_names:
                        continue
                    mine = [c for c in lch if c.name == tc.name]
                    if len(mine) != 1:
                        fail("target-child-not-copied", "%s %s" % (kind, tc.name), step=stepname)
                        continue
                    added += 1
                    if mine[0] is tc:
                        fail("target-child-moved-or-shared-instead-of-copied", tc.name, step=stepname)
                    if view(snapshot.snap(mine[0], ids=False)) != view(snapshot.snap(tc, ids=False)):
                        fail("copy-differs-from-target-child", tc.name, step=stepname)
                extra = [c.name for c in lch if c.name not in own_names and c.name not in names_of(tch)]
                if extra:
                    fail("linker-gained-children-the-target-does-not-have", extra, step=stepname)
                if not shared_names:
                    # own children untouched
                    pass
        if d is doc:
            now = outside_snapshot(doc, linkers)
            if now != out0:
                df = snapshot.diff(out0, now)
                fail("finalize-changed-something-outside-the-linking-section", snapshot.short(df), step=stepname)

    def check_restored(stepname):
        if shared_names:
            return
        now = snapshot.snap(doc)
        cmp0, cmpn = snapshot.strip(s0, ("link", "include")), snapshot.strip(now, ("link", "include"))
        if cmp0 != cmpn:
            df = snapshot.diff(cmp0, cmpn)
            fail("clean-does-not-restore-the-original-document", snapshot.short(df), step=stepname)
        for k, (linker, target) in enumerate(links):
            if case["mech"] == "link":
                got = refp.resolve(linker, linker.link) if linker.link is not None else None
                if got is not target:
                    fail("stored-link-no-longer-designates-the-target", repr(linker.link), step=stepname)
            else:
                if linker.include != snapshot_include(s0, linker):
                    fail("stored-include-changed", repr(linker.include), step=stepname)

    def snapshot_include(s, linker):
        return linker.include

    # history
    if step("finalize", doc.finalize):
        execs += 1
        check_resolved("finalize-1")
    resolved1 = snapshot.strip(snapshot.snap(doc, ids=False), ("link", "include"))
    if step("clean", doc.clean):
        execs += 1
        check_restored("clean-1")
    if step("finalize", doc.finalize):
        execs += 1
        check_resolved("finalize-2")
        if snapshot.strip(snapshot.snap(doc, ids=False), ("link", "include")) != resolved1 and not shared_names:
            fail("second-resolution-differs-from-the-first", None, step="finalize-2")
    r2 = snapshot.snap(doc)
    if step("finalize", doc.finalize):
        execs += 1
        if snapshot.strip(snapshot.snap(doc)) != snapshot.strip(r2) and not shared_names:
            fail("finalizing-twice-is-not-idempotent", snapshot.short(snapshot.diff(
                snapshot.strip(r2), snapshot.strip(snapshot.snap(doc)))), step="finalize-3")
    if step("clean", doc.clean):
        execs += 1
        check_restored("clean-2")
    c2 = snapshot.snap(doc)
    if step("clean", doc.clean):
        execs += 1
        if snapshot.snap(doc) != c2:
            fail("cleaning-twice-is-not-idempotent", None, step="clean-3")
    # a file saved after clean contains the reference but none of the referenced content
    if not shared_names and not fails:
        for fmt in ("XML", "JSON"):
            path = os.path.join(scratch, "saved." + fmt.lower())
            try:
                ODMLWriter(fmt).write_file(doc, path)
                if fmt == "XML":
                    back = odml.tools.xmlparser.XMLReader(ignore_errors=True, show_warnings=False).from_file(path)
                else:
                    back = ODMLReader(fmt, show_warnings=False).from_file(path)
                execs += 1
            except Exception as exc:
                fail("save-or-load-after-clean-raises", "%s: %s" % (type(exc).__name__, exc), step="save-" + fmt)
                continue
            bpre = {}
            for s in refp.bfs_sections(back):
                bpre[refp.abs_path(s)] = s
            for k, (linker, target) in enumerate(links):
                bl = bpre.get(refp.abs_path(linker))
                if bl is None:
                    fail("linking-section-missing-in-saved-file", None, step="save-" + fmt)
                    continue
                ref_attr = bl.link if case["mech"] == "link" else bl.include
                if ref_attr is None:
                    fail("saved-file-lacks-the-reference", None, step="save-" + fmt)
                tsecs, tprops = target_children(case, links, include_doc, k)
                have = names_of(tree.children(bl)[0]) + names_of(tree.children(bl)[1])
                leaked = [n for n in names_of(tsecs) + names_of(tprops) if n in have]
                if leaked:
                    fail("saved-file-contains-referenced-content", leaked, step="save-" + fmt)
            try:
                env.reset_globals(env.SEED + 1)
                back.finalize()
                bsn = snapshot.strip(snapshot.snap(back, ids=False), ("link", "include"))
                if file_view(bsn) != file_view(resolved1):
                    df = snapshot.diff(file_view(resolved1), file_view(bsn))
                    fail("loaded-file-resolves-to-a-different-document", snapshot.short(df), step="load-" + fmt)
            except Exception as exc:
                fail("finalize-of-loaded-file-raises", "%s: %s" % (type(exc).__name__, exc), step="load-" + fmt)
    return {"failures": fails, "outcomes": ["%s:%s" % (case["mech"], case["variant"])],
            "nontrivial": int(added > 0), "execs": max(execs, 1), "states": 1}


def check(tier):
    run = report.Run(PROP, tier, LEVEL, RULE, assumptions=[
        "links whose target is the linker, an ancestor, a descendant, or that chain/nest are outside the statement",
        "the text of a stored link may be rewritten (absolute <-> relative): it is compared by resolution",
        "same-named own children: only 'copies of the other children are added, nothing outside changes' is judged",
        "includes use file: URLs; loader threads run synchronously here (interleavings are C18's subject)",
    ])
    cases = gen_cases(tier)
    run.bounds = {"max_sections": 5 if tier == "quick" else 6, "simultaneous_links": 2}
    run.layer("one-reference", cases=sum(1 for c in cases if len(c["links"]) == 1))
    run.layer("two-links", cases=sum(1 for c in cases if len(c["links"]) == 2))
    run.layer("special-values-and-twins-in-the-target", cases=sum(1 for c in cases if c["variant"] in VALUE_VARIANTS))
    par.run_cases(run, "checks.c12", cases, nchunks=par.JOBS * 16)
    return run.finish(reproduce=lambda f: replay(f))


def replay(rec):
    env.reset_globals(env.SEED)
    return run_case(rec["case"])["failures"]
