"""C13 - merging one Section into another is complete, conservative and all-or-nothing.

Input engine: a compatible baseline pair (dest, src) of Section trees (depth 2, matched /
dest-only / src-only children on every level) deviated by up to two variations - attribute
states, dtype/value relations, Section type clashes - placed at every depth and combined with
every order of the source's children; x strict on/off.  Oracle: ref/merge.py."""
import copy
import itertools

from gen import docs
from mc import env, par, report, snapshot
from ref import merge as refm

PROP = "C13"
LEVEL = "model_checking"
RULE = ("baseline (dest, src) pair of depth-2 Section trees with matched, dest-only and src-only children x "
        "all single variations and all pairs of variations (attribute state per attribute and location, dtype / "
        "value relation per matched Property, type clash per matched Section) x 6 orders of the source's children "
        "x strict on/off; non-trivial = merge raised, or changed the destination")
WATCHDOG_S = 30


def P(name, dtype, values, **attrs):
    return {"name": name, "dtype": dtype, "values": values, "attrs": attrs}


def S(name, typ, props=(), secs=(), **attrs):
    return {"name": name, "type": typ, "properties": list(props), "sections": list(secs), "attrs": attrs}


def baseline():
    dest = S("d", "t", [], [
        S("A", "t", [P("p", "int", [1, 2]), P("q", "string", ["x"])]),
        S("B", "t", [], [S("C", "t", [P("r", "int", [1])])]),
        S("donly", "t", [P("k", "int", [7])]),
    ])
    src = S("s", "t", [], [
        S("A", "t", [P("p", "int", [2, 3]), P("q", "string", ["y"]), P("n", "int", [9])]),
        S("B", "t", [], [S("C", "t", [P("r", "int", [1, 5])]), S("E", "t")]),
        S("sonly", "t", [P("z", "string", ["w"])]),
    ])
    return dest, src


SEC_LOCS = ["", "A", "B", "B/C"]
PROP_LOCS = ["A:p", "A:q", "B/C:r"]
TEXT = {"set": "Def One", "soft": " def  ONE ", "hard": "other text"}
TEXT_STATES = ["set-unset", "unset-set", "equal", "soft", "hard"]
UNC = [None, 0, 0.5, 0.7]
DTYPE_KINDS = ["convertible", "convertible-rev", "unconvertible", "src-float", "equal-values", "src-empty",
               "dest-empty", "src-untyped-text", "src-multiline-string", "src-multiline-after-shared",
               "src-multiline-later", "src-shared-then-number-text"]


def variations():
    out = []
    for loc in SEC_LOCS:
        for attr in ("definition", "reference"):
            for st in TEXT_STATES:
                out.append(["sattr", loc, attr, st])
    for loc in PROP_LOCS:
        for attr in ("definition", "reference", "value_origin", "unit"):
            for st in TEXT_STATES:
                out.append(["pattr", loc, attr, st])
        for a in UNC:
            for b in UNC:
                if a is None and b is None:
                    continue
                out.append(["unc", loc, a, b])
        for k in DTYPE_KINDS:
            out.append(["dtype", loc, k])
    for loc in ("A", "B", "B/C"):
        out.append(["stype", loc])
    # Sections and Properties have separate name spaces: the parent of the Section at loc also owns a Property of
    # that name (in dest, in src, in both)
    for loc in ("A", "B", "B/C"):
        for side in ("dest", "src", "both"):
            out.append(["xkind", loc, side])
    return out


def find_sec(root, loc):
    cur = root
    if loc == "":
        return cur
    for part in loc.split("/"):
        cur = [c for c in cur["sections"] if c["name"] == part][0]
    return cur


def find_prop(root, loc):
    sloc, pname = loc.split(":")
    sec = find_sec(root, sloc)
    return [p for p in sec["properties"] if p["name"] == pname][0]


def apply_var(dest, src, var):
    k = var[0]
    if k in ("sattr", "pattr"):
        _, loc, attr, st = var
        d = (find_sec if k == "sattr" else find_prop)(dest, loc)
        s = (find_sec if k == "sattr" else find_prop)(src, loc)
        dv, sv = {"set-unset": (TEXT["set"], None), "unset-set": (None, TEXT["set"]),
                  "equal": (TEXT["set"], TEXT["set"]), "soft": (TEXT["set"], TEXT["soft"]),
                  "hard": (TEXT["set"], TEXT["hard"])}[st]
        if dv is not None:
            d["attrs"][attr] = dv
        if sv is not None:
            s["attrs"][attr] = sv
    elif k == "unc":
        _, loc, a, b = var
        if a is not None:
            find_prop(dest, loc)["attrs"]["uncertainty"] = a
        if b is not None:
            find_prop(src, loc)["attrs"]["uncertainty"] = b
    elif k == "dtype":
        _, loc, kind = var
        d, s = find_prop(dest, loc), find_prop(src, loc)
        if kind == "convertible":
            d.update(dtype="int", values=[1, 2])
            s.update(dtype="string", values=["2", "3"])
        elif kind == "convertible-rev":
            d.update(dtype="string", values=["1", "x"])
            s.update(dtype="int", values=[1, 4])
        elif kind == "unconvertible":
            d.update(dtype="int", values=[1, 2])
            s.update(dtype="string", values=["3", "x"])
        elif kind == "src-float":
            d.update(dtype="int", values=[1, 2])
            s.update(dtype="float", values=[2.0, 3.0])
        elif kind == "equal-values":
            s.update(dtype=d["dtype"], values=list(d["values"]))
        elif kind == "src-empty":
            s.update(values=[])
        elif kind == "dest-empty":
            d.update(values=[])
        elif kind == "src-multiline-string":
            # same dtype on both sides, but the source value holds a line break
            d.update(dtype="string", values=["x"])
            s.update(dtype="string", values=["a\nb", "c"])
        elif kind == "src-multiline-after-shared":
            # the first source value is one the destination has; the first value it lacks holds a line break
            d.update(dtype="string", values=["x"])
            s.update(dtype="string", values=["x", "a\nb"])
        elif kind == "src-multiline-later":
            d.update(dtype="string", values=["x"])
            s.update(dtype="string", values=["c", "a\nb"])
        elif kind == "src-shared-then-number-text":
            d.update(dtype="string", values=["x", "1"])
            s.update(dtype="string", values=["1", "x", "2"])
        elif kind == "src-untyped-text":
            d.update(dtype="text", values=["a\nb"])
            s.update(dtype="string", values=["c"])
    elif k == "stype":
        find_sec(src, var[1])["type"] = "other"
    elif k == "xkind":
        _, loc, side = var
        parent_loc, _, name = loc.rpartition("/")
        for which, root in (("dest", dest), ("src", src)):
            if side in (which, "both"):
                par = find_sec(root, parent_loc)
                if not any(p["name"] == name for p in par["properties"]):
                    par["properties"].append(P(name, "string", ["twin-of-section-%s" % which]))


def gen_cases(tier):
    vs = variations()
    orders = list(range(6))
    cases = []
    for strict in (True, False):
        for order in orders:
            cases.append({"vars": [], "order": order, "strict": strict})
        for v in vs:
            for order in orders:
                cases.append({"vars": [v], "order": order, "strict": strict})
        pair_orders = orders if tier == "thorough" else [0, 5]
        for a, b in itertools.combinations(vs, 2):
            if a[0] == b[0] and a[1] == b[1] and (a[0] in ("unc", "dtype", "stype") or a[2] == b[2]):
                continue        # two states of one attribute at one place exclude each other
            for order in pair_orders:
                cases.append({"vars": [a, b], "order": order, "strict": strict})
        if tier == "thorough":
            # triples over every third variation (all kinds of variation are represented)
            core = vs[::3]
            for a, b, c in itertools.combinations(core, 3):
                trio = (a, b, c)
                if any(x[0] == y[0] and x[1] == y[1] and (x[0] in ("unc", "dtype", "stype") or x[2] == y[2])
                       for x, y in itertools.combinations(trio, 2)):
                    continue
                for order in (0, 5):
                    cases.append({"vars": [a, b, c], "order": order, "strict": strict})
    return cases


def build_pair(case):
    dest, src = baseline()
    for v in case["vars"]:
        apply_var(dest, src, v)
    perm = list(itertools.permutations(range(3)))[case["order"]]
    src["sections"] = [src["sections"][i] for i in perm]
    a = find_sec(src, "A")
    a["properties"] = [a["properties"][i] for i in perm]
    return docs.build_section(dest), docs.build_section(src)


def var_class(v):
    if v[0] in ("sattr", "pattr"):
        return "%s:%s:%s@%s" % (v[0], v[2], v[3], "top" if v[1] == "" else "depth%d" % (v[1].count("/") + 1))
    if v[0] == "unc":
        return "uncertainty:%r-vs-%r" % (v[2], v[3])
    if v[0] == "dtype":
        return "dtype:%s" % v[2]
    if v[0] == "xkind":
        return "property-named-like-section:%s@depth%d" % (v[2], v[1].count("/") + 1)
    return "section-type-clash@depth%d" % (v[1].count("/") + 1)


def run_case(case):
    try:
        dest, src = build_pair(case)
    except Exception as exc:
        return {"failures": [], "outcomes": ["not-buildable:" + type(exc).__name__], "nontrivial": 0, "execs": 0,
                "states": 0}
    strict = case["strict"]
    before, sbefore = snapshot.snap(dest), snapshot.snap(src)
    cls = refm.classify(before, sbefore, strict)
    try:
        dest.merge(src, strict=strict)
        raised = None
    except Exception as exc:
        raised = type(exc).__name__
    after, safter = snapshot.snap(dest), snapshot.snap(src)
    fails = []
    vclasses = sorted(var_class(v) for v in case["vars"])

    def fail(clause, observed=None, expected=None, explain=""):
        fails.append(report.failure("merge", {"clause": clause, "strict": strict, "variations": vclasses,
                                              "expectation": cls}, case, observed=observed,
                                    expected=expected, explain=explain))
    if safter != sbefore:
        d = snapshot.diff(sbefore, safter)
        fail("source-changed", snapshot.short(d), explain="src differs at %s" % (d[0] if d else "?"))
    if raised is not None:
        if after != before:
            d = snapshot.diff(before, after)
            fail("failed-merge-changed-destination", snapshot.short(d), explain="dest differs at %s after %s" % (
                d[0] if d else "?", raised))
        if cls == "must-succeed":
            fail("compatible-merge-refused", raised)
        elif cls == "must-raise-valueerror" and raised != "ValueError":
            fail("conflict-refused-with-wrong-exception", raised, "ValueError")
    else:
        if cls in ("must-raise-valueerror", "must-raise"):
            fail("conflicting-merge-accepted", "returned", cls)
        else:
            for clause, detail in refm.post(before, sbefore, after, strict):
                fail(clause, detail, explain=detail)
    seen, uniq = set(), []
    for f in fails:
        k = f["desc"]["clause"]
        if k not in seen:
            seen.add(k)
            uniq.append(f)
    return {"failures": uniq, "outcomes": ["%s:%s" % (cls, raised or "ok")],
            "nontrivial": int(raised is not None or after != before), "execs": 1, "states": 1}


def check(tier):
    run = report.Run(PROP, tier, LEVEL, RULE, assumptions=[
        "text attributes differing in case/whitespace only: raising or succeeding are both accepted in strict mode",
        "where the postcondition is unachievable (unconvertible value, same-named Section of another type) any "
        "exception type is accepted, only 'raises and changes nothing' is demanded",
        "order of added children and ids of copies are not judged",
    ])
    cases = gen_cases(tier)
    run.bounds = {"variations": len(variations()), "deviation_bound": 2, "source_child_orders": 6,
                  "orders_for_pairs": 6 if tier == "thorough" else 2,
                  "variation_deviations": 2 if tier == "quick" else "2 complete + 3 over every third variation"}
    run.layer("pairs", cases=len(cases))
    par.run_cases(run, "checks.c13", cases, nchunks=par.JOBS * 16)
    return run.finish(reproduce=lambda f: replay(f))


def replay(rec):
    env.reset_globals(env.SEED)
    return run_case(rec["case"])["failures"]
