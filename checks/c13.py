"""C13 - merging one Section into another is complete, conservative and all-or-nothing.

Input engine: a compatible baseline pair (dest, src) of Section trees (depth 2, matched /
dest-only / src-only children on every level) deviated by up to two variations - attribute
states, dtype/value relations, Section type clashes - placed at every depth and combined with
every order of the source's children; x strict on/off.  Oracle: ref/merge.py.

Second layer "sequences": the destination carries state from earlier merges.  Two (three) merges in a row into one
destination - sources drawn from a family derived from the pair generator, the later source re-shaped (same names /
fresh names for what only it has / fresh Property names / other values / disjoint / childless), the same object
again, a clone of the first source, an earlier or later merge one or two levels further down, every combination of
strict - each step judged by the reference model applied to (destination as it was before the step, source)."""
import copy
import itertools

from gen import docs
from mc import env, par, report, snapshot
from ref import merge as refm

PROP = "C13"
LEVEL = "model_checking"
RULE = ("baseline (dest, src) pair of depth-2 Section trees with matched, dest-only and src-only children x "
        "all single variations and all pairs of variations (attribute state per attribute and location, dtype / "
        "value relation per matched Property, type clash per matched Section) x 6 orders of the source's children "
        "x strict on/off; non-trivial = merge raised, or changed the destination.  Sequences: destination of the "
        "baseline x first source (family of single variations) x later source (family of single variations x 6 "
        "shapes: same names, fresh names for source-only children, fresh Property names, other values, disjoint, "
        "childless | the same object | a clone of the first) x level of either merge (destination, child, "
        "grandchild) x all strict combinations, and first-second-first; every step judged by the reference model "
        "on (destination before the step, source)")
WATCHDOG_S = 30


def P(name, dtype, values, **attrs):
    return {"name": name, "dtype": dtype, "values": values, "attrs": attrs}


def S(name, typ, props=(), secs=(), **attrs):
    return {"name": name, "type": typ, "properties": list(props), "sections": list(secs), "attrs": attrs}


def baseline():
    dest = S("d", "t", [], [
        S("A", "t", [P("p", "int", [1, 2]), P("q", "string", ["x"])]),
        S("B", "t", [], [S("C", "t", [P("r", "int", [1])])]),
        S("donly", "t", [P("k", "int", [7])]),
    ])
    src = S("s", "t", [], [
        S("A", "t", [P("p", "int", [2, 3]), P("q", "string", ["y"]), P("n", "int", [9])]),
        S("B", "t", [], [S("C", "t", [P("r", "int", [1, 5])]), S("E", "t")]),
        S("sonly", "t", [P("z", "string", ["w"])]),
    ])
    return dest, src


SEC_LOCS = ["", "A", "B", "B/C"]
PROP_LOCS = ["A:p", "A:q", "B/C:r"]
TEXT = {"set": "Def One", "soft": " def  ONE ", "hard": "other text"}
TEXT_STATES = ["set-unset", "unset-set", "equal", "soft", "hard"]
UNC = [None, 0, 0.5, 0.7]
DTYPE_KINDS = ["convertible", "convertible-rev", "unconvertible", "src-float", "equal-values", "src-empty",
               "dest-empty", "src-untyped-text", "src-multiline-string", "src-multiline-after-shared",
               "src-multiline-later", "src-shared-then-number-text"]


def variations():
    out = []
    for loc in SEC_LOCS:
        for attr in ("definition", "reference"):
            for st in TEXT_STATES:
                out.append(["sattr", loc, attr, st])
    for loc in PROP_LOCS:
        for attr in ("definition", "reference", "value_origin", "unit"):
            for st in TEXT_STATES:
                out.append(["pattr", loc, attr, st])
        for a in UNC:
            for b in UNC:
                if a is None and b is None:
                    continue
                out.append(["unc", loc, a, b])
        for k in DTYPE_KINDS:
            out.append(["dtype", loc, k])
    for loc in ("A", "B", "B/C"):
        out.append(["stype", loc])
    # Sections and Properties have separate name spaces: the parent of the Section at loc also owns a Property of
    # that name (in dest, in src, in both)
    for loc in ("A", "B", "B/C"):
        for side in ("dest", "src", "both"):
            out.append(["xkind", loc, side])
    return out


def find_sec(root, loc):
    cur = root
    if loc == "":
        return cur
    for part in loc.split("/"):
        cur = [c for c in cur["sections"] if c["name"] == part][0]
    return cur


def find_prop(root, loc):
    sloc, pname = loc.split(":")
    sec = find_sec(root, sloc)
    return [p for p in sec["properties"] if p["name"] == pname][0]


def apply_var(dest, src, var):
    k = var[0]
    if k in ("sattr", "pattr"):
        _, loc, attr, st = var
        d = (find_sec if k == "sattr" else find_prop)(dest, loc)
        s = (find_sec if k == "sattr" else find_prop)(src, loc)
        dv, sv = {"set-unset": (TEXT["set"], None), "unset-set": (None, TEXT["set"]),
                  "equal": (TEXT["set"], TEXT["set"]), "soft": (TEXT["set"], TEXT["soft"]),
                  "hard": (TEXT["set"], TEXT["hard"])}[st]
        if dv is not None:
            d["attrs"][attr] = dv
        if sv is not None:
            s["attrs"][attr] = sv
    elif k == "unc":
        _, loc, a, b = var
        if a is not None:
            find_prop(dest, loc)["attrs"]["uncertainty"] = a
        if b is not None:
            find_prop(src, loc)["attrs"]["uncertainty"] = b
    elif k == "dtype":
        _, loc, kind = var
        d, s = find_prop(dest, loc), find_prop(src, loc)
        if kind == "convertible":
            d.update(dtype="int", values=[1, 2])
            s.update(dtype="string", values=["2", "3"])
        elif kind == "convertible-rev":
            d.update(dtype="string", values=["1", "x"])
            s.update(dtype="int", values=[1, 4])
        elif kind == "unconvertible":
            d.update(dtype="int", values=[1, 2])
            s.update(dtype="string", values=["3", "x"])
        elif kind == "src-float":
            d.update(dtype="int", values=[1, 2])
            s.update(dtype="float", values=[2.0, 3.0])
        elif kind == "equal-values":
            s.update(dtype=d["dtype"], values=list(d["values"]))
        elif kind == "src-empty":
            s.update(values=[])
        elif kind == "dest-empty":
            d.update(values=[])
        elif kind == "src-multiline-string":
            # same dtype on both sides, but the source value holds a line break
            d.update(dtype="string", values=["x"])
            s.update(dtype="string", values=["a\nb", "c"])
        elif kind == "src-multiline-after-shared":
            # the first source value is one the destination has; the first value it lacks holds a line break
            d.update(dtype="string", values=["x"])
            s.update(dtype="string", values=["x", "a\nb"])
        elif kind == "src-multiline-later":
            d.update(dtype="string", values=["x"])
            s.update(dtype="string", values=["c", "a\nb"])
        elif kind == "src-shared-then-number-text":
            d.update(dtype="string", values=["x", "1"])
            s.update(dtype="string", values=["1", "x", "2"])
        elif kind == "src-untyped-text":
            d.update(dtype="text", values=["a\nb"])
            s.update(dtype="string", values=["c"])
        elif kind == "tuple-both":          # sequences layer only (SEQ_DTYPE_KINDS)
            d.update(dtype="2-tuple", values=["(1;2)"])
            s.update(dtype="2-tuple", values=["(1;2)", "(3;4)"])
        elif kind == "tuple-equal":
            d.update(dtype="2-tuple", values=["(1;2)"])
            s.update(dtype="2-tuple", values=["(1;2)"])
        elif kind == "tuple-other-length":
            d.update(dtype="2-tuple", values=["(1;2)"])
            s.update(dtype="3-tuple", values=["(1;2;3)"])
    elif k == "stype":
        find_sec(src, var[1])["type"] = "other"
    elif k == "xkind":
        _, loc, side = var
        parent_loc, _, name = loc.rpartition("/")
        for which, root in (("dest", dest), ("src", src)):
            if side in (which, "both"):
                par = find_sec(root, parent_loc)
                if not any(p["name"] == name for p in par["properties"]):
                    par["properties"].append(P(name, "string", ["twin-of-section-%s" % which]))


def gen_cases(tier):
    vs = variations()
    orders = list(range(6))
    cases = []
    for strict in (True, False):
        for order in orders:
            cases.append({"vars": [], "order": order, "strict": strict})
        for v in vs:
            for order in orders:
                cases.append({"vars": [v], "order": order, "strict": strict})
        pair_orders = orders if tier == "thorough" else [0, 5]
        for a, b in itertools.combinations(vs, 2):
            if a[0] == b[0] and a[1] == b[1] and (a[0] in ("unc", "dtype", "stype") or a[2] == b[2]):
                continue        # two states of one attribute at one place exclude each other
            for order in pair_orders:
                cases.append({"vars": [a, b], "order": order, "strict": strict})
        if tier == "thorough":
            # triples over every third variation (all kinds of variation are represented)
            core = vs[::3]
            for a, b, c in itertools.combinations(core, 3):
                trio = (a, b, c)
                if any(x[0] == y[0] and x[1] == y[1] and (x[0] in ("unc", "dtype", "stype") or x[2] == y[2])
                       for x, y in itertools.combinations(trio, 2)):
                    continue
                for order in (0, 5):
                    cases.append({"vars": [a, b, c], "order": order, "strict": strict})
    return cases


def build_pair(case):
    dest, src = baseline()
    for v in case["vars"]:
        apply_var(dest, src, v)
    perm = list(itertools.permutations(range(3)))[case["order"]]
    src["sections"] = [src["sections"][i] for i in perm]
    a = find_sec(src, "A")
    a["properties"] = [a["properties"][i] for i in perm]
    return docs.build_section(dest), docs.build_section(src)


def var_class(v):
    if v[0] in ("sattr", "pattr"):
        return "%s:%s:%s@%s" % (v[0], v[2], v[3], "top" if v[1] == "" else "depth%d" % (v[1].count("/") + 1))
    if v[0] == "unc":
        return "uncertainty:%r-vs-%r" % (v[2], v[3])
    if v[0] == "dtype":
        return "dtype:%s" % v[2]
    if v[0] == "xkind":
        return "property-named-like-section:%s@depth%d" % (v[2], v[1].count("/") + 1)
    return "section-type-clash@depth%d" % (v[1].count("/") + 1)


def run_case(case):
    if case.get("layer") == "sequences":
        return run_seq_case(case)
    try:
        dest, src = build_pair(case)
    except Exception as exc:
        return {"failures": [], "outcomes": ["not-buildable:" + type(exc).__name__], "nontrivial": 0, "execs": 0,
                "states": 0}
    strict = case["strict"]
    before, sbefore = snapshot.snap(dest), snapshot.snap(src)
    cls = refm.classify(before, sbefore, strict)
    try:
        dest.merge(src, strict=strict)
        raised = None
    except Exception as exc:
        raised = env.exc_label(exc)
    after, safter = snapshot.snap(dest), snapshot.snap(src)
    fails = []
    vclasses = sorted(var_class(v) for v in case["vars"])

    def fail(clause, observed=None, expected=None, explain=""):
        fails.append(report.failure("merge", {"clause": clause, "strict": strict, "variations": vclasses,
                                              "expectation": cls}, case, observed=observed,
                                    expected=expected, explain=explain))
    if safter != sbefore:
        d = snapshot.diff(sbefore, safter)
        fail("source-changed", snapshot.short(d), explain="src differs at %s" % (d[0] if d else "?"))
    if raised is not None:
        if after != before:
            d = snapshot.diff(before, after)
            fail("failed-merge-changed-destination", snapshot.short(d), explain="dest differs at %s after %s" % (
                d[0] if d else "?", raised))
        if cls == "must-succeed":
            fail("compatible-merge-refused", raised)
        elif cls == "must-raise-valueerror" and not env.is_a(raised, "ValueError"):
            fail("conflict-refused-with-wrong-exception", raised, "ValueError")
    else:
        if cls in ("must-raise-valueerror", "must-raise"):
            fail("conflicting-merge-accepted", "returned", cls)
        else:
            for clause, detail in refm.post(before, sbefore, after, strict):
                fail(clause, detail, explain=detail)
    seen, uniq = set(), []
    for f in fails:
        k = f["desc"]["clause"]
        if k not in seen:
            seen.add(k)
            uniq.append(f)
    return {"failures": uniq, "outcomes": ["%s:%s" % (cls, raised or "ok")],
            "nontrivial": int(raised is not None or after != before), "execs": 1, "states": 1}


# ------------------------------------------------------------------ layer "sequences": destinations with a history

SEQ_DTYPE_KINDS = ["tuple-both", "tuple-equal", "tuple-other-length"]
SEQ_SHAPES = ["same-names", "fresh-only-children", "fresh-properties", "other-values", "disjoint-top", "childless"]
STRICT_COMBOS = [[True, True], [True, False], [False, True], [False, False]]
# (where the first merge takes place, where the second one does): "" is the destination itself
SEQ_LEVELS = [["A", ""], ["B", ""], ["B/C", ""], ["", "A"], ["", "B"]]


def reshape(src, shape):
    """The later source of a sequence, re-shaped relative to the earlier one (which keeps the baseline names)."""
    def walk(sec):
        yield sec
        for c in sec["sections"]:
            for x in walk(c):
                yield x
    if shape == "fresh-only-children":
        # what only the source has gets a name the earlier source did not use: the destination's gains from the
        # earlier merge are children the later source lacks
        find_sec(src, "sonly")["name"] = "sonly2"
        for pr in find_sec(src, "A")["properties"]:
            if pr["name"] == "n":
                pr["name"] = "n2"
        for c in find_sec(src, "B")["sections"]:
            if c["name"] == "E":
                c["name"] = "E2"
    elif shape == "fresh-properties":
        for sec in walk(src):
            for pr in sec["properties"]:
                pr["name"] += "2"
    elif shape == "other-values":
        # the Properties only the source has hold another value than those of the earlier source
        for loc, name, vals in (("A", "n", [9, 10]), ("sonly", "z", ["w2"])):
            for pr in find_sec(src, loc)["properties"]:
                if pr["name"] == name:
                    pr["values"] = vals
    elif shape == "disjoint-top":
        for c in src["sections"]:
            c["name"] += "2"
        for pr in src["properties"]:
            pr["name"] += "2"
    elif shape == "childless":
        src["sections"], src["properties"] = [], []
    src["name"] = "s2"


def _pick(vs, kind, locs=None, attrs=None, states=None):
    out = []
    for v in vs:
        if v[0] != kind or (locs is not None and v[1] not in locs):
            continue
        if kind in ("sattr", "pattr") and ((attrs is not None and v[2] not in attrs) or
                                           (states is not None and v[3] not in states)):
            continue
        if kind == "dtype" and states is not None and v[2] not in states:
            continue
        if kind == "xkind" and states is not None and v[2] not in states:
            continue
        out.append(v)
    return out


def seq_families(tier):
    """(first, second, lite, small): lists of variation lists (lite: later sources, small: first sources of the
    sequences with a merge further down).  The first source comes with its destination (the
    destination side of the variation is applied), of the later source only the source side is used."""
    vs = variations() + [["dtype", "A:q", k] for k in SEQ_DTYPE_KINDS]
    first = [[]]
    first += [[v] for v in _pick(vs, "sattr", states=("unset-set", "set-unset"))]
    first += [[v] for v in _pick(vs, "pattr", ("A:p",), ("unit", "definition"), ("unset-set", "set-unset"))]
    first += [[v] for v in _pick(vs, "pattr", ("B/C:r",), ("unit",), ("unset-set",))]
    first += [[["unc", "A:p", None, 0]], [["unc", "A:p", 0, None]]]
    first += [[v] for v in _pick(vs, "dtype", ("A:p",), states=("convertible", "convertible-rev", "src-empty",
                                                                 "dest-empty", "equal-values", "src-float"))]
    first += [[v] for v in _pick(vs, "dtype", ("B/C:r",), states=("dest-empty",))]
    first += [[v] for v in _pick(vs, "dtype", ("A:q",), states=("tuple-both",))]
    first += [[v] for v in _pick(vs, "xkind", ("A",), states=("src", "both"))]
    second = [[]]
    second += [[v] for v in _pick(vs, "sattr", states=("unset-set", "soft", "hard"))]
    second += [[v] for v in _pick(vs, "pattr", ("A:p",), states=("unset-set", "soft", "hard"))]
    second += [[v] for v in _pick(vs, "pattr", ("B/C:r",), ("unit", "definition"), ("unset-set", "soft", "hard"))]
    second += [[["unc", "A:p", None, b]] for b in (0, 0.5, 0.7)] + [[["unc", "B/C:r", None, 0.5]]]
    second += [[v] for v in _pick(vs, "dtype", ("A:p",))]
    second += [[v] for v in _pick(vs, "dtype", ("B/C:r",), states=("convertible", "unconvertible"))]
    second += [[v] for v in _pick(vs, "dtype", ("A:q",), states=SEQ_DTYPE_KINDS)]
    second += [[v] for v in _pick(vs, "stype")]
    second += [[v] for v in _pick(vs, "xkind", states=("src",))]
    lite = [[]]
    lite += [[v] for v in _pick(vs, "sattr", attrs=("definition",), states=("unset-set", "hard"))]
    lite += [[v] for v in _pick(vs, "pattr", ("A:p", "B/C:r"), ("unit",), ("unset-set", "hard"))]
    lite += [[v] for v in _pick(vs, "dtype", ("A:p",), states=("convertible", "unconvertible", "src-empty"))]
    lite += [[v] for v in _pick(vs, "dtype", ("B/C:r",), states=("convertible",))]
    lite += [[["stype", "B/C"]], [["xkind", "A", "src"]]]
    small = first
    if tier == "thorough":
        first, lite = first + [x for x in second if x not in first], second
        second = [[]] + [[v] for v in vs]
    return first, second, lite, small


def _sources_of(case):
    """Specs (dest, first, second-or-None) of a sequence case."""
    dest, first = baseline()
    for v in case["vars1"]:
        apply_var(dest, first, v)
    if case["rel"] != "other":
        return dest, first, None
    scratch, second = baseline()        # the destination side of the later variation is not used
    for v in case["vars2"]:
        apply_var(scratch, second, v)
    perm = list(itertools.permutations(range(3)))[case.get("order2", 0)]
    second["sections"] = [second["sections"][i] for i in perm]
    a = find_sec(second, "A")
    a["properties"] = [a["properties"][i] for i in perm]
    reshape(second, case["shape"])
    return dest, first, second


def gen_seq_cases(tier):
    first, second, lite, small = seq_families(tier)
    top_only = [x for x in second if not x or (x[0][0] == "sattr" and x[0][1] == "")]
    cases, seen, later = [], set(), {}

    def add(**kw):
        case = {"layer": "sequences", "vars1": kw.get("vars1", []), "vars2": kw.get("vars2", []),
                "shape": kw.get("shape", "same-names"), "rel": kw.get("rel", "other"),
                "levels": kw.get("levels", ["", ""]), "strict": kw["strict"], "order2": kw.get("order2", 0)}
        if case["rel"] == "other":
            # different variations can give the same later source (only their destination side differs)
            lk = snapshot.canon([case["vars2"], case["shape"], case["order2"]])
            if lk not in later:
                later[lk] = snapshot.canon(_sources_of(dict(case, vars1=[]))[2])
            key = snapshot.canon([case["vars1"], later[lk], case["levels"], case["strict"]])
            if key in seen:
                return
            seen.add(key)
        cases.append(case)

    for strict in STRICT_COMBOS:
        # (1) another source, every shape
        for shape in SEQ_SHAPES:
            fam2 = top_only if shape in ("disjoint-top", "childless") else second
            orders2 = (0, 5) if tier == "thorough" and shape == "same-names" else (0,)
            for v1 in first:
                for v2 in fam2:
                    for o in orders2:
                        add(vars1=v1, vars2=v2, shape=shape, strict=strict, order2=o)
        # (2) the same object again; a clone of the first source
        both = first + [x for x in second if x not in first]
        for rel in ("same-object", "clone"):
            for v1 in both:
                add(vars1=v1, rel=rel, strict=strict)
        # (3) one of the two merges takes place further down in the destination
        for levels in SEQ_LEVELS:
            for shape in ("same-names", "fresh-only-children"):
                for v1 in small:
                    for v2 in lite:
                        add(vars1=v1, vars2=v2, shape=shape, levels=levels, strict=strict)
    # (4) three merges: first, second, first again
    for strict in (True, False):
        for shape in ("same-names", "fresh-only-children"):
            for v1 in first:
                for v2 in lite:
                    add(vars1=v1, vars2=v2, shape=shape, rel="other", strict=[strict, strict, strict])
    return cases


def _sub(snp, loc):
    cur = snp
    if loc:
        for part in loc.split("/"):
            cur = [c for c in cur["sections"] if c["name"] == ["str", repr(part)]][0]
    return cur


def _obj(root, loc):
    cur = root
    if loc:
        for part in loc.split("/"):
            cur = cur.sections[part]
    return cur


def run_seq_case(case):
    try:
        dspec, fspec, sspec = _sources_of(case)
        dest, first = docs.build_section(dspec), docs.build_section(fspec)
        if case["rel"] == "other":
            second = docs.build_section(sspec)
        elif case["rel"] == "clone":
            second = first.clone()
        else:
            second = first
    except Exception as exc:
        return {"failures": [], "outcomes": ["seq:not-buildable:" + type(exc).__name__], "nontrivial": 0, "execs": 0,
                "states": 0}
    stricts = case["strict"]
    sources = [first, second] + ([first] if len(stricts) == 3 else [])
    levels = list(case["levels"]) + [""] * (len(stricts) - 2)
    vclasses = [sorted(var_class(v) for v in case["vars1"]), sorted(var_class(v) for v in case["vars2"])]
    fails, labels, changed, execs = [], [], 0, 0
    seen_snaps = {}

    def last(o):
        return seen_snaps[id(o)] if id(o) in seen_snaps else snapshot.snap(o)
    for step, (src, loc, strict) in enumerate(zip(sources, levels, stricts)):
        try:
            dobj, sobj = _obj(dest, loc), _obj(src, loc)
        except Exception:
            labels.append("no-such-level")
            break
        others = [x for x in (first, second) if x is not src]
        # nothing happens between two steps: what was observed after a step is the state before the next one
        whole_b, src_b, others_b = last(dest), last(src), [last(x) for x in others]
        before, sbefore = _sub(whole_b, loc), _sub(src_b, loc)
        cls = refm.classify(before, sbefore, strict)
        try:
            dobj.merge(sobj, strict=strict)
            raised = None
        except Exception as exc:
            raised = env.exc_label(exc)
        execs += 1
        whole_a, src_a, others_a = snapshot.snap(dest), snapshot.snap(src), [snapshot.snap(x) for x in others]
        for o, sn in [(dest, whole_a), (src, src_a)] + list(zip(others, others_a)):
            seen_snaps[id(o)] = sn

        def fail(clause, observed=None, expected=None, explain=""):
            fails.append(report.failure("merge-sequence", {
                "clause": clause, "step": step, "strict": stricts, "relation": case["rel"], "shape": case["shape"],
                "levels": case["levels"], "variations": vclasses, "expectation": cls}, case, observed=observed,
                expected=expected, explain=explain))
        if src_a != src_b:
            d = snapshot.diff(src_b, src_a)
            fail("source-changed", snapshot.short(d), explain="src differs at %s" % (d[0] if d else "?"))
        if others_a != others_b:
            d = snapshot.diff(others_b, others_a)
            fail("source-of-another-merge-changed", snapshot.short(d),
                 explain="the Section merged %s differs at %s" % ("earlier" if step else "later", d[0] if d else "?"))
        if raised is not None:
            if whole_a != whole_b:
                d = snapshot.diff(whole_b, whole_a)
                fail("failed-merge-changed-destination", snapshot.short(d),
                     explain="dest differs at %s after %s" % (d[0] if d else "?", raised))
            if cls == "must-succeed":
                fail("compatible-merge-refused", raised)
            elif cls == "must-raise-valueerror" and not env.is_a(raised, "ValueError"):
                fail("conflict-refused-with-wrong-exception", raised, "ValueError")
        else:
            if cls in ("must-raise-valueerror", "must-raise"):
                fail("conflicting-merge-accepted", "returned", cls)
            else:
                try:
                    after = _sub(whole_a, loc)
                except IndexError:
                    after = None
                if after is None:
                    fail("merged-section-gone-from-its-parent", loc)
                else:
                    for clause, detail in refm.post(before, sbefore, after, strict):
                        fail(clause, detail, explain=detail)
        changed += int(raised is not None or whole_a != whole_b)
        labels.append("%s:%s" % (cls, raised or "ok"))
    seen, uniq = set(), []
    for f in fails:
        k = (f["desc"]["clause"], f["desc"]["step"])
        if k not in seen:
            seen.add(k)
            uniq.append(f)
    return {"failures": uniq, "outcomes": ["seq:" + ">".join(labels)], "nontrivial": int(changed > 0),
            "execs": execs, "states": 1}


def check(tier):
    run = report.Run(PROP, tier, LEVEL, RULE, assumptions=[
        "text attributes differing in case/whitespace only: raising or succeeding are both accepted in strict mode",
        "where the postcondition is unachievable (unconvertible value, same-named Section of another type) any "
        "exception type is accepted, only 'raises and changes nothing' is demanded",
        "order of added children and ids of copies are not judged",
        "Properties of n-tuple values: a refusal that changes nothing and a merge that fulfils the postcondition "
        "are both accepted (sequences layer only)",
        "sequences: the Section merged in another step of the sequence must stay unchanged as well",
    ])
    cases = gen_cases(tier)
    run.bounds = {"variations": len(variations()), "deviation_bound": 2, "source_child_orders": 6,
                  "orders_for_pairs": 6 if tier == "thorough" else 2,
                  "variation_deviations": 2 if tier == "quick" else "2 complete + 3 over every third variation"}
    run.layer("pairs", cases=len(cases))
    seq = gen_seq_cases(tier)
    fam = seq_families(tier)
    run.bounds.update({"sequence_length": "2 (3 for first-second-first)", "sequence_first_sources": len(fam[0]),
                       "sequence_later_sources": len(fam[1]), "sequence_later_sources_small": len(fam[2]),
                       "sequence_first_sources_further_down": len(fam[3]),
                       "sequence_shapes_of_later_source": len(SEQ_SHAPES), "sequence_levels": 1 + len(SEQ_LEVELS),
                       "sequence_strict_combinations": len(STRICT_COMBOS)})
    by_kind = {}
    for c in seq:
        k = ("three-merges" if len(c["strict"]) == 3 else c["rel"] if c["rel"] != "other" else
             "another-source" if c["levels"] == ["", ""] else "merge-further-down")
        by_kind[k] = by_kind.get(k, 0) + 1
    run.layer("sequences", cases=len(seq), **by_kind)
    par.run_cases(run, "checks.c13", cases + seq, nchunks=par.JOBS * 16)
    return run.finish(reproduce=lambda f: replay(f))


def replay(rec):
    env.reset_globals(env.SEED)
    return run_case(rec["case"])["failures"]
