"""C14 - paths address exactly one object and traversals enumerate exactly the tree.

All ordered forests with <=4 (quick) / <=5 (thorough) Sections x all sibling-unique name
assignments over names that are prefixes of one another; every node, every ordered pair, every
start x depth x flag combination; plus a fixed family of large deterministic trees; plus (layer
'detached') the traversal / find clauses from every node of trees that are not inside a Document: built
without one, taken out of one with remove(), or clone()d.  Oracle: ref/paths.py (independent resolver and
BFS over the object graph)."""
import itertools

from gen import docs
from mc import env, par, report
from ref import paths as refp, tree

PROP = "C14"
LEVEL = "model_checking"
RULE = ("all ordered forests with <=N Sections x all assignments of names from {a, ab, a.b, b} with unique "
        "siblings; per document: every Section/Property path looked up from the Document and from every Section, "
        "every ordered pair for relative paths, every start x max_depth in {None,0..depth+1} x yield_self x "
        "filter for the three traversals, find / find_related over keys x types x all flag combinations; "
        "layer 'detached' (forests with <=N-1 Sections): every top-level tree built without a Document, every "
        "Section removed from its parent (fresh document each time), every Section cloned with and without "
        "children; traversals and find / find_related (smaller trees) from every node of the Document-less tree, "
        "path clauses not judged there; "
        "non-trivial = document with >= 2 Sections (pairs and depth limits exist)")
NAMES = ["a", "ab", "a.b", "b", "A"]        # prefixes of each other, a dot, and a pair that differs only in case
TYPES = ["t", "stim/white", "stim", "T"]
WATCHDOG_S = 60
FIND_MAX = 4
ORIGINS = ["built-without-document", "removed-from-parent", "cloned", "cloned-without-children"]


def namings(shape):
    """All assignments of NAMES to the nodes of a forest shape with unique siblings (pre-order)."""
    groups = []      # list of sibling groups as lists of pre-order indices
    counter = itertools.count()

    # iterative to keep pre-order numbering identical to docs.name_forest
    order = []

    def number(f):
        grp = []
        for t in f:
            i = next(counter)
            grp.append(i)
            order.append(i)
            number(t)
        if grp:
            groups.append(grp)
    number(shape)
    n = len(order)
    choices = [list(itertools.permutations(NAMES, len(g))) for g in groups]
    for combo in itertools.product(*choices):
        names = [None] * n
        for g, perm in zip(groups, combo):
            for i, nm in zip(g, perm):
                names[i] = nm
        yield names


def gen_cases(tier):
    nmax = 5 if tier == "quick" else 6
    cases = []
    for n in range(1, nmax + 1):
        for shape in docs.tree_shapes(n):
            for names in namings(shape):
                cases.append({"layer": "small", "shape": shape, "names": names, "n": n})
    for fam in ("path12", "star30", "binary5", "caterpillar"):
        cases.append({"layer": "large", "family": fam})
    # start points that are not inside a Document (the traversal and find clauses speak of "the start point",
    # not of a document): the same forests and namings, one size smaller; find on trees one size smaller again
    for n in range(1, nmax):
        for shape in docs.tree_shapes(n):
            for names in namings(shape):
                cases.append({"layer": "detached", "shape": shape, "names": names, "n": n,
                              "find": n <= nmax - 2})
    return cases


def small_specs(case):
    """Section specs (top-level list) of a 'small' / 'detached' case."""
    def props(i):
        if i % 3 == 2:
            return []             # Sections without Properties: an empty leaf Section is a falsy object
        ps = [{"name": "p", "values": ["v%d" % i]}]
        if i % 2 == 0:
            ps.append({"name": "a", "values": [i, i + 1]})
        if i % 4 == 1:
            ps.append({"name": "P", "values": ["upper"]})      # differs from 'p' only in case
        return ps
    secs = docs.name_forest(case["shape"], names=case["names"], props=props)
    n = [0]

    def settype(lst):
        for s in lst:
            s["type"] = TYPES[n[0] % len(TYPES)]
            n[0] += 1
            settype(s["sections"])
    settype(secs)
    return secs


def build_case(case):
    if case["layer"] in ("small", "detached"):
        return docs.build(docs.doc_of(small_specs(case)))
    import odml
    doc = odml.Document()
    fam = case["family"]
    cyc = itertools.cycle(NAMES)
    if fam == "path12":
        cur = doc
        for i in range(12):
            cur = odml.Section(name=next(cyc), type="t", parent=cur)
            odml.Property(name="p", values=[i], parent=cur)
    elif fam == "star30":
        for i in range(30):
            s = odml.Section(name="%s%d" % (next(cyc), i), type="t", parent=doc)
            odml.Property(name="p", values=[i], parent=s)
    elif fam == "binary5":
        level = [doc]
        for d in range(5):
            nxt = []
            for par_ in level:
                for nm in ("a", "ab"):
                    s = odml.Section(name=nm, type="t", parent=par_)
                    odml.Property(name="p", values=[d], parent=s)
                    nxt.append(s)
            level = nxt
    else:
        spine = doc
        for i in range(8):
            spine = odml.Section(name="a", type="t", parent=spine)
            for nm in ("ab", "a.b", "b"):
                leaf = odml.Section(name=nm, type="t", parent=spine)
                odml.Property(name="a", values=[i], parent=leaf)
    return doc


def all_sections(doc):
    return refp.bfs_sections(doc)


def depth_of(doc):
    d = 0
    for s in all_sections(doc):
        d = max(d, len(refp.ancestors(s)))
    return d


def relation(a, b):
    if a is b:
        return "target-is-start"
    anc_a = refp.ancestors(a)
    if anc_a and anc_a[0] is b:
        return "target-is-parent"
    if any(x is b for x in anc_a):
        return "target-is-ancestor"
    anc_b = refp.ancestors(b)
    if any(x is a for x in anc_b):
        return "target-is-descendant"
    if anc_a and anc_b and anc_a[0] is anc_b[0]:
        return "siblings"
    return "other-branch"


def detached_roots(case):
    """(origin, root Section) for every way this case yields a tree that is not inside a Document.
    A fresh Document is built for every removal; clones are taken from one untouched Document."""
    out = []
    for spec in small_specs(case):
        out.append(("built-without-document", docs.build_section(spec, None)))
    n = len(all_sections(build_case(case)))
    for i in range(n):
        sec = all_sections(build_case(case))[i]
        par_ = sec.parent
        par_.remove(sec)
        out.append(("removed-from-parent", sec))
    doc = build_case(case)
    for sec in all_sections(doc):
        out.append(("cloned", sec.clone()))
        out.append(("cloned-without-children", sec.clone(children=False)))
    return out


def run_detached(case):
    """Traversal and find clauses with start points that are not inside a Document.  The path clauses are
    quantified over objects "of a document" and are not judged here."""
    D, S, P = tree._kinds()
    fails = []
    execs = 0
    seen = set()
    origin = [None]

    def fail(check, desc, observed=None, expected=None, explain=""):
        desc = dict(desc, origin=origin[0])
        key = (check, tuple(sorted((k, str(v)) for k, v in desc.items())))
        if key in seen:
            return
        seen.add(key)
        desc["layer"] = case["layer"]
        fails.append(report.failure(check, desc, case, observed=observed, expected=expected, explain=explain))

    roots = detached_roots(case)
    biggest = 0
    outcomes = set()
    for org, root in roots:
        origin[0] = org
        if root.parent is not None or isinstance(root, D):
            outcomes.add("%s-still-has-a-parent" % org)     # not this property's subject; shown in the evidence
            continue
        nodes = [root] + refp.bfs_sections(root)
        biggest = max(biggest, len(nodes))
        outcomes.add("%s-sections-%d" % (org, len(nodes)))
        height = max(len(refp.ancestors(x)) for x in nodes)
        depths = [None] + list(range(0, height + 2))
        label = lambda st, root=root: {"start": "section-without-parent" if st is root
                                       else "section-below-a-section-without-parent"}
        execs += traversal_checks(nodes, depths, fail, label)
        if case["find"]:
            execs += find_checks(None, nodes, fail)
    return {"failures": fails, "outcomes": sorted(outcomes), "nontrivial": int(biggest >= 2),
            "execs": execs, "states": 1}


def run_case(case):
    if case["layer"] == "detached":
        return run_detached(case)
    doc = build_case(case)
    D, S, P = tree._kinds()
    secs = all_sections(doc)
    fails = []
    execs = 0
    seen = set()

    def fail(check, desc, observed=None, expected=None, explain=""):
        key = (check, tuple(sorted((k, str(v)) for k, v in desc.items())))
        if key in seen:
            return
        seen.add(key)
        desc = dict(desc)
        desc["layer"] = case["layer"]
        fails.append(report.failure(check, desc, case, observed=observed, expected=expected, explain=explain))

    starts = [doc] + secs
    # 1. absolute paths, from the document and from every section
    for s in secs:
        path = s.get_path()
        if path != refp.abs_path(s):
            fail("paths", {"clause": "get_path-differs-from-reference", "object": "section"}, path, refp.abs_path(s))
        for r in starts:
            execs += 1
            try:
                got = r.get_section_by_path(path)
            except Exception as exc:
                got = "<%s>" % type(exc).__name__
            if got is not s:
                fail("paths", {"clause": "absolute-section-path-does-not-resolve-to-the-section",
                               "from": "document" if r is doc else "section"}, repr(got), path,
                     "%s from %s" % (path, tree._nm(r)))
        for p in tree.children(s)[1]:
            ppath = p.get_path()
            for r in starts:
                execs += 1
                try:
                    got = r.get_property_by_path(ppath)
                except Exception as exc:
                    got = "<%s>" % type(exc).__name__
                if got is not p:
                    fail("paths", {"clause": "absolute-property-path-does-not-resolve-to-the-property",
                                   "from": "document" if r is doc else "section"}, repr(got), ppath)
    # 2. relative paths for every ordered pair
    pair_secs = secs if len(secs) <= 70 else secs[:70]
    for a in pair_secs:
        for b in pair_secs:
            execs += 1
            rel = relation(a, b)
            try:
                rp = a.get_relative_path(b)
                got = a.get_section_by_path(rp)
            except Exception as exc:
                rp = locals().get("rp", "?")
                got = "<%s>" % type(exc).__name__
            if got is not b:
                fail("paths", {"clause": "relative-path-does-not-resolve-to-the-target", "tree-relation": rel},
                     repr(got), refp.abs_path(b),
                     "%s.get_relative_path(%s) = %r" % (refp.abs_path(a), refp.abs_path(b), rp))
    # 2b. hand-written relative paths: the reference's own path, with a redundant './' in front, and with a
    #     detour through every child Section of the start ('child/../...'); all must reach the target
    if case["layer"] == "small":
        for a in pair_secs:
            kids = tree.children(a)[0]
            for b in pair_secs:
                rel = relation(a, b)
                base = refp.rel_path(a, b)
                forms = [("reference-form", base), ("dot-prefixed", "./" + base)]
                forms += [("detour-through-child", "%s/../%s" % (k.name, base)) for k in kids
                          if not base.startswith("/")]
                for form, path in forms:
                    if refp.resolve(a, path) is not b:
                        continue              # the reference itself does not read this form as a way to b
                    execs += 1
                    try:
                        got = a.get_section_by_path(path)
                    except Exception as exc:
                        got = "<%s>" % type(exc).__name__
                    if got is not b:
                        fail("paths", {"clause": "hand-written-relative-path-does-not-resolve-to-the-target",
                                       "tree-relation": rel, "form": form}, repr(got), refp.abs_path(b),
                             "%s.get_section_by_path(%r)" % (refp.abs_path(a), path))
    # 3. traversals
    dmax = depth_of(doc) + 1
    depths = [None] + list(range(0, dmax + 1)) if case["layer"] == "small" else [None, 0, 1, 2, dmax]
    tstarts = starts if case["layer"] == "small" else starts[:8]
    execs += traversal_checks(tstarts, depths, fail, lambda st: {"start": "document" if st is doc else "section"})
    # 4. find / find_related
    if case["layer"] == "small" and case["n"] <= FIND_MAX:
        execs += find_checks(doc, starts, fail)
    return {"failures": fails, "outcomes": ["sections-%d" % min(len(secs), 6)], "nontrivial": int(len(secs) >= 2),
            "execs": execs, "states": 1}


def traversal_checks(tstarts, depths, fail, label):
    """itersections / iterproperties / itervalues from every start x max_depth x yield_self x filter against
    the reference BFS.  label(start) gives the descriptor entries that name the kind of start point."""
    execs = 0
    for st in tstarts:
        for md in depths:
            for ys in (False, True):
                for fname, ffunc in (("all", None), ("named-a", lambda x: x.name == "a")):
                    execs += 1
                    kw = {"max_depth": md, "yield_self": ys}
                    if ffunc:
                        kw["filter_func"] = ffunc
                    want = refp.bfs_sections(st, md, include_start=ys)
                    if ffunc:
                        want = [x for x in want if ffunc(x)]
                    try:
                        got = list(st.itersections(**kw))
                    except Exception as exc:
                        got = ["<%s>" % type(exc).__name__]
                    if len(got) != len(want) or any(g is not w for g, w in zip(got, want)):
                        fail("traversal", dict(label(st), **{"clause": "itersections-differs",
                                           "max_depth": "None" if md is None else ("0" if md == 0 else "n"),
                                           "yield_self": ys, "filter": fname}),
                             [tree._nm(x) if not isinstance(x, str) else x for x in got],
                             [tree._nm(x) for x in want], "start %s max_depth %r" % (tree._nm(st), md))
            for fname, ffunc in (("all", None), ("named-a", lambda x: x.name == "a")):
                execs += 1
                wsecs = refp.bfs_sections(st, md, include_start=True)
                wprops = [p for s_ in wsecs for p in tree.children(s_)[1]]
                if ffunc:
                    wprops = [p for p in wprops if ffunc(p)]
                kw = {"max_depth": md}
                if ffunc:
                    kw["filter_func"] = ffunc
                try:
                    got = list(st.iterproperties(**kw))
                except Exception as exc:
                    got = ["<%s>" % type(exc).__name__]
                if len(got) != len(wprops) or any(g is not w for g, w in zip(got, wprops)):
                    fail("traversal", dict(label(st), **{"clause": "iterproperties-differs",
                                       "max_depth": "None" if md is None else ("0" if md == 0 else "n"), "filter": fname}),
                         [tree._nm(x) if not isinstance(x, str) else x for x in got], [tree._nm(x) for x in wprops])
            execs += 1
            wsecs = refp.bfs_sections(st, md, include_start=True)
            wvals = [p.values for s_ in wsecs for p in tree.children(s_)[1]]
            wvals_f = [v for v in wvals if len(v) > 1]
            try:
                got = list(st.itervalues(max_depth=md))
                gotf = list(st.itervalues(max_depth=md, filter_func=lambda v: len(v) > 1))
            except Exception as exc:
                got = gotf = ["<%s>" % type(exc).__name__]
            if got != wvals or gotf != wvals_f:
                fail("traversal", dict(label(st), **{"clause": "itervalues-differs",
                                   "max_depth": "None" if md is None else ("0" if md == 0 else "n")}), got, wvals)
    return execs


KEYS = [None, "a", "ab", "zz"]
TYPEQ = [(None, False), ("t", False), ("STIM", False), ("stim", True), ("nope", False)]


def matches(obj, key, typ, include_subtype=False):
    D, S, P = tree._kinds()
    if key is not None and (isinstance(obj, D) or obj.name != key):
        return False
    if typ is not None:
        if isinstance(obj, D):
            return False
        t = obj.type.lower()
        q = typ.lower()
        if t == q:
            return True
        if include_subtype and q in t.split("/")[:-1]:
            return True
        return False
    return True


def find_checks(doc, starts, fail):
    D, S, P = tree._kinds()
    execs = 0
    for st in starts:
        kids = tree.children(st)[0]
        for key in KEYS:
            for typ, sub in TYPEQ:
                for find_all in (False, True):
                    execs += 1
                    ref_set = [c for c in kids if matches(c, key, typ, sub)]
                    try:
                        got = st.find(key=key, type=typ, findAll=find_all, include_subtype=sub)
                    except Exception as exc:
                        fail("find", {"clause": "find-raises", "exception": type(exc).__name__,
                                      "type": typ, "include_subtype": sub}, type(exc).__name__)
                        continue
                    judge("find", {"key": key is not None, "type": typ, "include_subtype": sub, "findAll": find_all},
                          got, ref_set, [], find_all, fail)
        if isinstance(st, D):
            continue
        for key in KEYS:
            for typ, _ in TYPEQ[:3] + TYPEQ[4:]:
                for flags in itertools.product((False, True), repeat=5):
                    children, siblings, parents, recursive, find_all = flags
                    execs += 1
                    must, either = [], []
                    if children:
                        pool = refp.bfs_sections(st) if recursive else kids
                        must += [c for c in pool if matches(c, key, typ)]
                    if siblings and st.parent is not None:
                        for c in tree.children(st.parent)[0]:
                            if matches(c, key, typ):
                                (either if c is st else must).append(c)
                    if parents:
                        anc = refp.ancestors(st)
                        if not recursive:
                            anc = anc[:1]
                        for c in anc:
                            if isinstance(c, D):
                                if key is None and typ is None:
                                    either.append(c)
                            elif matches(c, key, typ):
                                must.append(c)
                    try:
                        got = st.find_related(key=key, type=typ, children=children, siblings=siblings,
                                              parents=parents, recursive=recursive, findAll=find_all)
                    except Exception as exc:
                        fail("find", {"clause": "find_related-raises", "exception": type(exc).__name__,
                                      "type": typ}, type(exc).__name__)
                        continue
                    judge("find_related", {"key": key is not None, "type": typ, "children": children,
                                           "siblings": siblings, "parents": parents, "recursive": recursive,
                                           "findAll": find_all}, got, must, either, find_all, fail)
    return execs


def judge(fn, desc, got, must, either, find_all, fail):
    allowed = must + either
    if got is None:
        got_list = []
    elif isinstance(got, list):
        got_list = got
    else:
        got_list = [got]
    if find_all and got is not None and not isinstance(got, list):
        fail("find", dict(desc, clause="%s-findAll-does-not-return-a-list" % fn), repr(got))
    for g in got_list:
        if not any(g is a for a in allowed):
            fail("find", dict(desc, clause="%s-returns-object-outside-the-requested-name-type-relation" % fn),
                 tree._nm(g), [tree._nm(x) for x in allowed])
            return
    if must and not got_list:
        fail("find", dict(desc, clause="%s-finds-nothing-although-a-match-exists" % fn), None,
             [tree._nm(x) for x in must])
        return
    if find_all:
        missing = [m for m in must if not any(m is g for g in got_list)]
        if missing:
            fail("find", dict(desc, clause="%s-findAll-misses-a-match" % fn),
                 [tree._nm(x) for x in got_list], [tree._nm(x) for x in must])


def check(tier):
    run = report.Run(PROP, tier, LEVEL, RULE, assumptions=[
        "'large random trees' of the quantifier are replaced by a fixed family of large deterministic trees",
        "EITHER: the start Section among its own siblings; the Document among the parents when neither name nor type is requested",
        "findAll results are compared as sets",
        "layer 'detached': the path clauses speak of objects 'of a document' and are not judged for trees without one; "
        "relations of find_related end at the Section without parent",
    ])
    cases = gen_cases(tier)
    run.bounds = {"max_sections": 5 if tier == "quick" else 6, "names": NAMES, "find_on_trees_up_to": 3}
    run.layer("small", cases=sum(1 for c in cases if c["layer"] == "small"))
    run.layer("large", cases=sum(1 for c in cases if c["layer"] == "large"))
    run.layer("detached", cases=sum(1 for c in cases if c["layer"] == "detached"))
    par.run_cases(run, "checks.c14", cases, nchunks=par.JOBS * 16)
    return run.finish(reproduce=lambda f: replay(f))


def replay(rec):
    env.reset_globals(env.SEED)
    return run_case(rec["case"])["failures"]
