"""C15 - version conversion 1.0 -> 1.1 keeps the content.

Input engine: abstract 1.0 documents (gen/v10.py: a baseline deviated by every single deviation
and every pair) rendered to 1.0 XML / JSON / YAML by the generator x {StringIO, file} x {convert,
str(), write_to_file}; the output must load in the strict reader and equal the reference mapping
(ref/v10_to_v11.py); every dropped or overridden item must be mentioned in the conversion log;
the source must be untouched."""
import io
import itertools
import os

from gen import v10
from mc import env, par, report, snapshot
from ref import v10_to_v11 as ref

PROP = "C15"
LEVEL = "model_checking"
RULE = ("a 1.0 baseline document deviated by every single deviation and every pair of deviations (value element counts, "
        "value texts, placement of each liftable attribute, clashing sibling names at three levels, id forms, unsupported "
        "elements at four levels, unnamed Properties, spellings) x {XML via StringIO, XML file, JSON file, YAML file} x "
        "{convert, str, write_to_file}; non-trivial = the converted document was loaded and compared")
WATCHDOG_S = 60


def gen_cases(tier):
    labels = [l for l, _ in v10.deviations()]
    cases = [{"devs": []}] + [{"devs": [l]} for l in labels]
    for a, b in itertools.combinations(labels, 2):
        if a.split(":")[0] == b.split(":")[0] and a.split(":")[0] not in ("foo", "text-first", "text-later"):
            continue          # two settings of the same slot: the second simply overrides the first
        if {a, b} == {"dependency", "dependencyvalue-spelling"}:
            continue          # the same attribute in its two spellings at once: not a sensible 1.0 document
        cases.append({"devs": [a, b]})
    if tier == "thorough":
        core = [l for l in labels if l.split(":")[0] in ("text-first", "unit", "type", "prop-names", "sec-names", "foo",
                                                         "unnamed-property", "prop-id", "binary")]
        for a, b, c in itertools.combinations(core, 3):
            if len({a.split(":")[0], b.split(":")[0], c.split(":")[0]}) == 3:
                cases.append({"devs": [a, b, c]})
    return cases


def run_case(case):
    scratch = env.fresh_dir("c15")
    try:
        return _run(case, scratch)
    finally:
        env.drop_dir(scratch)


def _run(case, scratch):
    from odml.tools.converters.version_converter import VersionConverter
    from odml.tools.xmlparser import XMLReader
    fails = []
    kinds = sorted(set(d.split(":")[0] for d in case["devs"]))

    def fail(clause, entry, observed=None, detail=None):
        fails.append(report.failure("convert", {"clause": clause, "entry": entry, "deviations": kinds,
                                                "detail": detail}, case, observed=observed,
                                    explain="deviations %r" % (case["devs"],)))
    doc10 = v10.apply(case["devs"])
    exp, tokens = ref.expect_document(doc10)
    sources = [("XML", "stringio", v10.to_xml(doc10, header=False)), ("XML", "file", v10.to_xml(doc10)),
               ("XML", "stringio-with-declaration", v10.to_xml(doc10))]
    if not v10.duplicate_keys_lost(doc10):
        sources += [("JSON", "file", v10.to_json(doc10)), ("YAML", "file", v10.to_yaml(doc10)),
                    ("JSON", "file-native-scalars", v10.to_json(doc10, True)),
                    ("YAML", "file-native-scalars", v10.to_yaml(doc10, True))]
        aliased = v10.to_yaml(doc10, share=True)
        if "&id" in aliased:
            sources.append(("YAML", "file-shared-parts", aliased))
    execs = 0
    for fmt, how, text in sources:
        path = os.path.join(scratch, "src." + fmt.lower())
        for entry in ("convert", "str", "write_to_file", "convert-twice", "convert-then-write_to_file"):
            if entry == "str" and fmt != "XML":
                continue
            if entry in ("convert-twice", "convert-then-write_to_file") and how in ("file-native-scalars",
                                                                                   "stringio-with-declaration"):
                continue
            label = "%s:%s:%s" % (fmt, how, entry)
            if how.startswith("stringio"):
                src = io.StringIO(text)
                src.seek(3)
            else:
                with open(path, "w", encoding="utf-8") as fh:
                    fh.write(text)
                src = path
            conv = VersionConverter(src)
            out_path = os.path.join(scratch, "out.xml")
            if os.path.exists(out_path):
                os.unlink(out_path)
            try:
                if entry == "convert":
                    result = conv.convert(fmt)
                elif entry == "convert-twice":
                    # one converter object used twice: the second result and its log are judged
                    conv.convert(fmt)
                    result = conv.convert(fmt)
                elif entry == "str":
                    result = str(conv)
                else:
                    if entry == "convert-then-write_to_file":
                        conv.convert(fmt)
                    conv.write_to_file(out_path, fmt)
                    if not os.path.exists(out_path):
                        fail("write_to_file-wrote-nothing", label)
                        continue
                    with open(out_path, encoding="utf-8") as fh:
                        result = fh.read()
                execs += 1
            except Exception as exc:
                fail("conversion-raises", label, "%s: %s" % (type(exc).__name__, str(exc)[:160]))
                continue
            # the source is never modified
            if how.startswith("stringio"):
                if src.getvalue() != text or src.tell() != 3:
                    fail("source-modified", label, "StringIO content or position changed")
            else:
                with open(path, encoding="utf-8") as fh:
                    if fh.read() != text:
                        fail("source-modified", label, "source file changed")
            # strict load
            try:
                if entry.endswith("write_to_file"):
                    loaded = XMLReader(show_warnings=False).from_file(out_path)
                else:
                    loaded = XMLReader(show_warnings=False).from_string(result)
                execs += 1
            except Exception as exc:
                fail("converted-document-does-not-load-in-the-strict-reader", label,
                     "%s: %s" % (type(exc).__name__, str(exc)[:200]))
                continue
            for clause, detail in ref.compare(exp, loaded)[:4]:
                fail("content:" + clause, label, snapshot.short(repr(detail)), detail=clause)
            log = "\n".join(conv.conversion_log)
            for what, words in tokens:
                if what == "unnamed-property" and any("property" in l.lower() and "name" in l.lower()
                                                      for l in conv.conversion_log):
                    continue        # whatever the wording: an entry about a Property and its (missing) name
                if not any(w in log for w in words):
                    fail("dropped-item-not-in-the-conversion-log", label, {"item": what, "expected_mention": words,
                                                                            "log": log[:300]}, detail=what.split("-")[0])
    return {"failures": fails, "outcomes": ["converted"], "nontrivial": 1, "execs": max(execs, 1)}


def check(tier):
    run = report.Run(PROP, tier, LEVEL, RULE, assumptions=[
        "no repository / include URLs (they would need the network; excluded by the statement)",
        "which numeric suffix a clashing name receives is not judged, only uniqueness and that non-clashing names stay",
        "conflicting attribute values on several value elements: the first one wins and the others are logged",
        "the dictionary forms cannot hold one tag twice inside a value element: such documents are rendered to XML only",
        "a dropped item counts as logged when the log mentions its element tag (unnamed Property: one of its values)",
    ])
    cases = gen_cases(tier)
    run.bounds = {"deviations": 2 if tier == "quick" else 3, "single_deviations": len(v10.deviations())}
    run.layer("deviations", cases=len(cases))
    par.run_cases(run, "checks.c15", cases, nchunks=par.JOBS * 16)
    return run.finish(reproduce=lambda f: replay(f))


def replay(rec):
    env.reset_globals(env.SEED)
    return run_case(rec["case"])["failures"]
