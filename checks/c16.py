"""C16 - readers are total.

Input engine over four layers of *input text / dictionaries*:
 (a) all strings of length <=L over a 9-letter alphabet, bare and inside a valid <odML> frame;
 (b) grammar trees over the odML element names (wrong nesting, repeated / missing / unknown /
     upper-case elements, unparsable text per slot, XML attributes, PIs, comments, CDATA, entities);
 (c) every single structural mutation of every node of three valid seed files (pairs on the
     smallest seed, thorough);
 (d) the same as dictionaries for DictReader.to_odml and as JSON / YAML text for ODMLReader;
 (e) deep nesting: documents in which 100 ... 3000 elements (Sections, Properties, values, unknown elements, roots)
     are nested inside one another, balanced and unbalanced, and the nested dictionaries / lists for the dictionary
     reader and as JSON / YAML text;
 (f) pumped input: one run of 30 / 64 / 5000 repetitions of a single unit (white space of every kind, BOM, digits,
     separators, brackets, quotes, markup, whole elements) at every place where a reader matches a regular expression,
     splits, strips or loops: before / after / between the parts of a document, inside the XML declaration, inside
     cardinalities, values and tuples, in every text slot, in XML attributes and names; the dictionary analogue and
     white space / indicator runs around JSON / YAML text.  Every input of (e) and (f) runs under a watchdog of its own
     (5 s of processor time): an expiry is the verdict 'reader-did-not-terminate'; after two expiries the rest of a case
     is skipped.
Outcome invariant: a Document or ParserException (InvalidVersionException exactly for an odML
root of another version); lenient + well-formed + current odML root never raises; every returned
Document satisfies the tree and naming invariants; untouched seed nodes survive in lenient mode."""
import copy
import itertools
import json
import os

from mc import env, par, report, snapshot
from ref import tree

PROP = "C16"
LEVEL = "model_checking"
RULE = ("all strings of length <=L over {< > / a \" = space & [} bare and framed; all element trees with <=2 (reduced tag set: "
        "<=3) nodes under the root x text variants per slot; every single mutation of every node of 3 seed files; the "
        "dictionary analogue; elements / dictionaries / lists nested 100..3000 deep in 14 + 8 shapes; one run of 30/64/5000 "
        "repetitions of one unit at each of 13 XML and 5 dictionary sites; each x strict/lenient x string/file; "
        "non-trivial = input that is well-formed and has an odML (or Document) root")
WATCHDOG_S = 120

ALPHABET = ["<", ">", "/", "a", '"', "=", " ", "&", "["]
VID = "11111111-2222-4333-8444-%012d"

DOC_TAGS = ["id", "author", "version", "date", "repository", "section", "property", "foo", "Section", "value"]
SEC_TAGS = ["name", "type", "id", "definition", "reference", "repository", "link", "include", "section", "property",
            "sec_cardinality", "prop_cardinality", "foo", "NAME", "value", "odML"]
PROP_TAGS = ["name", "id", "value", "type", "unit", "uncertainty", "definition", "dependency", "dependencyvalue", "reference",
             "value_origin", "val_cardinality", "section", "property", "foo", "Value"]
TEXTS = {
    "id": ["", "not-an-id", VID % 7, "5", "\u00b2" * 32],
    "date": ["", "2020-13-45", "x", "2020-01-02"],
    "sec_cardinality": ["", "(a,b)", "x", "(2,1)", "(1,2)", "(-1,2)", "(\u00b2,3)", "(\u0663,\u0664)", "(1.0,2)", "(+1,2)", "( 1 , 2 )"],
    "prop_cardinality": ["", "(a,b)", "(1,2,3)", "(1,2)"],
    "val_cardinality": ["", "(a,b)", "()", "(0,1)"],
    "value": ["", "x", "[1,x]", "[", "(1;2;3)", '["', "[" + "a" * 140000 + ",b]", '["a,b]', "[a\nb]"],
    "type": ["", "int", "foo", "2-tuple", "string"],
    "uncertainty": ["", "abc", "0.5", "\u00b2", "1e999", "nan"],
    "link": ["", "nope", "/", ".."],
    "include": ["", "file:///nonexistent/f.xml#x", "not a url"],
    "name": ["", "n", "a/b"],
}
DEFAULT_TEXTS = ["", "x"]


# --------------------------------------------------------------------------- watchdog per input (layers e, f)

INPUT_WATCHDOG_S = 5
MAX_EXPIRIES = 2     # per case, as in mc/hist.py and mc/par.py: do not spend 5 s on every further input of a case


def guarded(fn, seconds=INPUT_WATCHDOG_S):
    """fn() under a watchdog of its own inside the (wall clock) watchdog of the case runner in mc/par.py: env.Timeout is
    raised in fn when it has used `seconds` of processor time.  Processor time, because other jobs on the machine must
    not turn a reader that needs a second into one that 'does not terminate'; a reader that waits without computing is
    left to the outer watchdog."""
    return env.with_cpu_watchdog(fn, seconds)


def _deeper(fn, frames=60):
    return fn() if frames <= 0 else _deeper(fn, frames - 1)


# --------------------------------------------------------------------------- judging

def judge_xml(text, is_file, scratch, label, fail, stats, seed_ids=None, mutated_ids=(), call=None, seed_text=None):
    """Run the XML reader strict and lenient on `text`; apply the outcome invariant.
    call: None, or `guarded` - then every reader call has its own watchdog and an expiry is the verdict
    'reader-did-not-terminate' for that entry instead of the end of the whole case."""
    run = call or (lambda fn: fn())
    import lxml.etree as ET
    from odml.tools.xmlparser import XMLReader
    from odml.tools.parser_utils import ParserException, InvalidVersionException
    from odml.doc import BaseDocument
    data = text.encode("utf-8") if isinstance(text, str) else text
    def parse(b, huge=False):
        try:
            return ET.fromstring(b, ET.XMLParser(remove_comments=True, huge_tree=huge)), True
        except ET.XMLSyntaxError:
            return None, False
        except Exception:
            return None, False
    root, wellformed = parse(data)
    tried = [data]
    if not wellformed and not is_file and isinstance(text, str):
        # for text that is already decoded the encoding named in an XML declaration has no meaning
        import re
        stripped = re.sub(r"^\s*<\?xml[^>]*\?>", "", text, count=1)
        if stripped != text:
            tried.append(stripped.encode("utf-8"))
            root, wellformed = parse(tried[-1])
    odml_root = wellformed and root.tag == "odML"
    other_version = odml_root and "version" in root.attrib and root.attrib["version"] != "1.1"
    current = odml_root and root.attrib.get("version") == "1.1"

    def huge_odml_root():
        # second opinion before a returned Document is called unfounded: libxml2's default resource limits (nesting
        # depth 256, text nodes of 10 MB) are not part of XML; a reader may read text beyond them, it need not
        for b in tried:
            big, ok = parse(b, huge=True)
            if ok and big.tag == "odML":
                stats["either"] += 1
                return True
        return False
    outcomes = {}
    for lenient in (False, True):
        r = XMLReader(ignore_errors=lenient, show_warnings=False)
        entry = "%s:%s" % ("from_file" if is_file else "from_string", "lenient" if lenient else "strict")
        try:
            if is_file:
                path = os.path.join(scratch, "in.xml")
                with open(path, "wb") as fh:
                    fh.write(data)
                doc = run(lambda: r.from_file(path))
            else:
                doc = run(lambda: r.from_string(text))
            stats["execs"] += 1
            if not isinstance(doc, BaseDocument):
                fail("reader-returned-something-else", entry, label, type(doc).__name__)
                outcomes[lenient] = "other"
                continue
            outcomes[lenient] = "document"
            objs = tree.closure([doc])
            bad = tree.tree_violations(objs) + tree.naming_violations(objs)
            if bad:
                fail("returned-document-breaks-the-tree-or-naming-invariant:" + bad[0][0], entry, label, bad[0][1])
            if not odml_root and not huge_odml_root():
                fail("document-returned-for-input-without-odML-root", entry, label, None)
            if lenient and seed_ids is not None:
                have = set(o.id for o in objs)
                lost = sorted(i for i in seed_ids if i not in have and i not in mutated_ids)
                if lost:
                    fail("lenient-reader-lost-valid-parts", entry, label, lost[:3])
                touched = getattr(mutated_ids, "touched", None)
                if touched is not None and seed_text is not None:
                    # the object whose attribute was touched keeps its other attributes
                    want_all = seed_attrs(seed_text)
                    for o in objs:
                        if o.id in touched and o.id in want_all:
                            got = plain_attrs(o)
                            diff = sorted(t for t, v in want_all[o.id].items() if t not in touched[o.id] and got.get(t) != v)
                            if diff:
                                fail("lenient-reader-lost-valid-attributes", entry, label,
                                     [(t, want_all[o.id][t], got.get(t)) for t in diff[:3]])
        except InvalidVersionException:
            stats["execs"] += 1
            outcomes[lenient] = "invalid-version"
            if not other_version:
                fail("InvalidVersionException-for-input-that-is-not-another-odML-version", entry, label, None)
        except ParserException as exc:
            stats["execs"] += 1
            outcomes[lenient] = "parser-exception"
            if other_version:
                fail("other-format-version-not-reported-as-InvalidVersionException", entry, label, str(exc)[:100])
            if lenient and current:
                fail("lenient-reader-raises-on-wellformed-odML", entry, label, str(exc)[:160])
        except env.Timeout:
            if call is None:
                raise
            stats["execs"] += 1
            stats["expired"] += 1
            outcomes[lenient] = "did-not-terminate"
            fail("reader-did-not-terminate", entry, label, "no answer within %d s of processor time" % INPUT_WATCHDOG_S)
            break
        except BaseException as exc:
            stats["execs"] += 1
            outcomes[lenient] = "leak:" + type(exc).__name__
            fail("reader-leaks-" + type(exc).__name__, entry, label, str(exc)[:160])
            continue
        if lenient and outcomes.get(False) == "parser-exception" and outcomes.get(True) == "document" and not r.warnings:
            fail("strict-raises-but-lenient-records-no-warning", entry, label, None)
    stats["wellformed"] += int(bool(odml_root))
    for lenient, oc in outcomes.items():
        k = "xml:%s:%s" % ("lenient" if lenient else "strict", oc)
        stats["hist"][k] = stats["hist"].get(k, 0) + 1
    return outcomes


def judge_dict(data, label, fail, stats, judged=True, seed_ids=None, mutated_ids=(), call=None, fresh=None,
               lenient_may_refuse=False):
    """fresh: None, or a function that builds the dictionary anew (dictionaries too deep for copy.deepcopy)."""
    run = call or (lambda fn: fn())
    from odml.tools.dict_parser import DictReader
    from odml.tools.parser_utils import ParserException, InvalidVersionException
    from odml.doc import BaseDocument
    shaped = isinstance(data, dict) and isinstance(data.get("Document"), dict) and "odml-version" in data
    other_version = shaped and data.get("odml-version") != "1.1"
    for lenient in (False, True):
        entry = "DictReader.to_odml:%s" % ("lenient" if lenient else "strict")
        r = DictReader(show_warnings=False, ignore_errors=lenient)
        try:
            arg = copy.deepcopy(data) if fresh is None else fresh()
            doc = run(lambda: r.to_odml(arg))
            stats["execs"] += 1
            stats["hist"]["dict:%s:document" % ("lenient" if lenient else "strict")] = stats["hist"].get(
                "dict:%s:document" % ("lenient" if lenient else "strict"), 0) + 1
            if not isinstance(doc, BaseDocument):
                if judged:
                    fail("reader-returned-something-else", entry, label, type(doc).__name__)
                continue
            objs = tree.closure([doc])
            bad = tree.tree_violations(objs) + tree.naming_violations(objs)
            if bad:
                fail("returned-document-breaks-the-tree-or-naming-invariant:" + bad[0][0], entry, label, bad[0][1])
            if lenient and seed_ids is not None:
                have = set(o.id for o in objs)
                lost = sorted(i for i in seed_ids if i not in have and i not in mutated_ids)
                if lost:
                    fail("lenient-reader-lost-valid-parts", entry, label, lost[:3])
        except InvalidVersionException:
            stats["execs"] += 1
            if judged and not other_version:
                fail("InvalidVersionException-for-input-that-is-not-another-odML-version", entry, label, None)
        except ParserException as exc:
            stats["execs"] += 1
            stats["hist"]["dict:%s:parser-exception" % ("lenient" if lenient else "strict")] = stats["hist"].get(
                "dict:%s:parser-exception" % ("lenient" if lenient else "strict"), 0) + 1
            if judged and lenient and shaped and not other_version and not lenient_may_refuse:
                fail("lenient-reader-raises-on-odML-shaped-dictionary", entry, label, str(exc)[:160])
        except env.Timeout:
            if call is None:
                raise
            stats["execs"] += 1
            stats["expired"] += 1
            fail("reader-did-not-terminate", entry, label, "no answer within %d s of processor time" % INPUT_WATCHDOG_S)
            break
        except BaseException as exc:
            stats["execs"] += 1
            stats["either" if not judged else "leaks"] += 1
            if judged:
                fail("reader-leaks-" + type(exc).__name__, entry, label, str(exc)[:160])
    stats["wellformed"] += int(bool(shaped))


def judge_text(fmt, text, label, fail, stats, scratch, judged=True, call=None, decodable_only=False):
    """JSON / YAML text through ODMLReader (string and file).
    decodable_only: text that json.loads / yaml.safe_load themselves refuse (nesting beyond their limits) is executed
    but not judged ('JSON / YAML text that is not decodable at all is outside the statement'); the oracle's own decoding
    runs deeper in the stack than the reader's, so that text it accepts is text the reader's decoder accepts too."""
    run = call or (lambda fn: fn())
    from odml.tools.odmlparser import ODMLReader
    from odml.tools.parser_utils import ParserException
    from odml.doc import BaseDocument
    if decodable_only and judged:
        try:
            if fmt == "JSON":
                decoded = run(lambda: _deeper(lambda: json.loads(text)))
            else:
                import yaml
                decoded = run(lambda: _deeper(lambda: yaml.safe_load(text)))
            # a root (or Document) that is no dictionary is a wrong container type: executed, not judged (as in layer d)
            judged = isinstance(decoded, dict) and isinstance(decoded.get("Document", {}), dict)
            if not judged:
                stats["either"] += 1
        except BaseException:   # includes the watchdog: the decoder, not the reader, is slow then
            stats["either"] += 1
            k = "%s:text-refused-by-the-decoder-itself" % fmt.lower()
            stats["hist"][k] = stats["hist"].get(k, 0) + 1
            return
    # reader options: with show_warnings (the default of ODMLReader and odml.load) the reader validates what it has read
    # and reports the issues - that step belongs to the call and must not leak anything either
    import warnings as _warnings
    for how in ("from_string", "from_file", "from_string:show_warnings", "from_file:show_warnings"):
        entry = "ODMLReader(%s).%s" % (fmt, how)
        quiet = not how.endswith(":show_warnings")
        try:
            with _warnings.catch_warnings():
                _warnings.simplefilter("ignore")
                if how.startswith("from_string"):
                    doc = run(lambda: ODMLReader(fmt, show_warnings=not quiet).from_string(text))
                else:
                    path = os.path.join(scratch, "in." + fmt.lower())
                    with open(path, "w", encoding="utf-8") as fh:
                        fh.write(text)
                    doc = run(lambda: ODMLReader(fmt, show_warnings=not quiet).from_file(path))
            stats["execs"] += 1
            if isinstance(doc, BaseDocument):
                objs = tree.closure([doc])
                bad = tree.tree_violations(objs) + tree.naming_violations(objs)
                if bad:
                    fail("returned-document-breaks-the-tree-or-naming-invariant:" + bad[0][0], entry, label, bad[0][1])
        except ParserException:
            stats["execs"] += 1
        except env.Timeout:
            if call is None:
                raise
            stats["execs"] += 1
            stats["expired"] += 1
            if judged:
                fail("reader-did-not-terminate", entry, label, "no answer within %d s of processor time" % INPUT_WATCHDOG_S)
            break
        except BaseException as exc:
            stats["execs"] += 1
            if judged:
                fail("reader-leaks-" + type(exc).__name__, entry, label, str(exc)[:160])


# --------------------------------------------------------------------------- layer (b): grammar

def texts_for(tag):
    return TEXTS.get(tag, DEFAULT_TEXTS)


def leaf(tag, text):
    return "<%s>%s</%s>" % (tag, text, tag)


def grammar_docs(tier):
    """(label, xml text)"""
    out = []
    frame = '<odML version="1.1">%s</odML>'
    # one child of the root
    for t in DOC_TAGS:
        for x in texts_for(t):
            out.append(("root/%s" % t, frame % leaf(t, x)))
    # a section with <=2 children (incl. missing mandatory elements)
    sec_children = [(t, x) for t in SEC_TAGS for x in texts_for(t)]
    for a in [None] + sec_children:
        for b in [None] + sec_children:
            if a is None and b is not None:
                continue
            body = "".join(leaf(*c) for c in (a, b) if c is not None)
            out.append(("section/%s+%s" % (a[0] if a else "-", b[0] if b else "-"), frame % ("<section>%s</section>" % body)))
    # a valid section holding a property with <=2 children
    prop_children = [(t, x) for t in PROP_TAGS for x in texts_for(t)]
    for a in [None] + prop_children:
        for b in [None] + prop_children:
            if a is None and b is not None:
                continue
            body = "".join(leaf(*c) for c in (a, b) if c is not None)
            out.append(("property/%s+%s" % (a[0] if a else "-", b[0] if b else "-"),
                        frame % ("<section><name>s</name><type>t</type><property>%s</property></section>" % body)))
    # three typed slots together: value x dtype x cardinality
    for v in TEXTS["value"]:
        for t in TEXTS["type"]:
            for c in TEXTS["val_cardinality"]:
                body = "<name>p</name>" + leaf("value", v) + leaf("type", t) + leaf("val_cardinality", c)
                out.append(("property/value+type+card", frame % ("<section><name>s</name><type>t</type><property>%s</property></section>" % body)))
    # duplicate sibling names, top level and nested, sections and properties
    sec = "<section><name>%s</name><type>t</type>%s</section>"
    prop = "<property><name>%s</name><value>1</value></property>"
    out.append(("dup/top-sections", frame % (sec % ("a", "") + sec % ("a", ""))))
    out.append(("dup/nested-sections", frame % (sec % ("o", sec % ("a", "") + sec % ("a", "")))))
    out.append(("dup/properties", frame % (sec % ("o", prop % "p" + prop % "p"))))
    out.append(("dup/three-sections", frame % (sec % ("a", "") + sec % ("b", "") + sec % ("a", ""))))
    out.append(("dup/ids", frame % ("<section><name>a</name><type>t</type><id>%s</id></section><section><name>b</name><type>t</type><id>%s</id></section>" % (VID % 1, VID % 1))))
    out.append(("link+include", frame % (sec % ("a", "<link>/b</link><include>file:///x.xml#y</include>") + sec % ("b", ""))))
    out.append(("link-to-sibling", frame % (sec % ("a", "<link>/b</link>") + sec % ("b", prop % "p"))))
    out.append(("link-to-itself", frame % (sec % ("a", "<link>/a</link>"))))
    out.append(("link-to-parent", frame % (sec % ("a", sec % ("c", "<link>/a</link>")))))
    # XML attributes, processing instructions, comments, CDATA, entities, namespaces, declaration
    body = sec % ("a", prop % "p")
    specials = {
        "xml-attribute-on-section": frame % body.replace("<section>", '<section x="1">', 1),
        "xml-attribute-on-root": '<odML version="1.1" other="x">%s</odML>' % body,
        "pi-in-root": frame % ("<?pi x?>" + body),
        "pi-in-section": frame % body.replace("<name>a</name>", "<name>a</name><?pi x?>", 1),
        "pi-in-property": frame % body.replace("<value>1</value>", "<?pi x?><value>1</value>", 1),
        "pi-in-value": frame % body.replace("<value>1</value>", "<value>1<?pi x?></value>", 1),
        "comment-in-value": frame % body.replace("<value>1</value>", "<value>1<!-- c -->2</value>", 1),
        "comment-in-root": frame % ("<!-- c -->" + body),
        "cdata-value": frame % body.replace("<value>1</value>", "<value><![CDATA[<a&b>]]></value>", 1),
        "entity-amp": frame % body.replace("<value>1</value>", "<value>a&amp;b</value>", 1),
        "entity-undefined": frame % body.replace("<value>1</value>", "<value>&foo;</value>", 1),
        "doctype-entity": '<!DOCTYPE odML [<!ENTITY e "x">]>' + frame % body.replace("<value>1</value>", "<value>&e;</value>", 1),
        "namespace-prefix": '<odML version="1.1" xmlns:x="urn:x"><x:section><name>a</name><type>t</type></x:section></odML>',
        "default-namespace": '<odML version="1.1" xmlns="urn:x">%s</odML>' % body,
        "xml-declaration": '<?xml version="1.0" encoding="UTF-8"?>\n' + frame % body,
        "xml-declaration-truncated": '<?xml version="1.0" encoding="UTF-8"',
        "xml-declaration-unterminated": '<?xml version="1.0" encoding="UTF-8" ' + frame % body,
        "xml-declaration-only": '<?xml version="1.0" encoding="UTF-8"?>',
        "xml-declaration-twice": '<?xml version="1.0" encoding="UTF-8"?><?xml version="1.0" encoding="UTF-8"?>' + frame % body,
        "xml-declaration-unknown-encoding": '<?xml version="1.0" encoding="no-such-enc"?>' + frame % body,
        "xml-declaration-latin1": '<?xml version="1.0" encoding="ISO-8859-1"?>\n' + frame % body,
        "stylesheet-pi": '<?xml version="1.0"?>\n<?xml-stylesheet type="text/xsl" href="odml.xsl"?>\n' + frame % body,
        "text-in-root": frame % ("stray text" + body),
        "text-in-section": frame % body.replace("<name>a</name>", "stray<name>a</name>", 1),
        "nested-value-element": frame % body.replace("<value>1</value>", "<value>1<unit>mV</unit></value>", 1),
        "wrong-version": '<odML version="1">%s</odML>' % body,
        "wrong-version-2": '<odML version="2.0"></odML>',
        "no-version": "<odML>%s</odML>" % body,
        "version-attr-case": '<odML Version="1.1">%s</odML>' % body,
        "other-root": "<html><body/></html>",
        "root-case": '<odml version="1.1"></odml>',
        "empty-root": '<odML version="1.1"/>',
        "empty-string": "",
        "whitespace": "   \n",
        "bom": "﻿" + frame % body,
        "deep-nesting": frame % ("".join("<section><name>n%d</name><type>t</type>" % i for i in range(60)) + "</section>" * 60),
    }
    for k, v in specials.items():
        out.append(("special/" + k, v))
    return out


# --------------------------------------------------------------------------- layer (c): mutations

def seeds():
    s1 = ('<odML version="1.1"><id>%s</id><author>me</author>'
          '<section><id>%s</id><name>s1</name><type>t</type>'
          '<property><id>%s</id><name>p1</name><value>[1,2]</value><type>int</type><unit>mV</unit></property>'
          '<section><id>%s</id><name>s11</name><type>t</type>'
          '<property><id>%s</id><name>q</name><value>x</value></property></section></section>'
          '<section><id>%s</id><name>s2</name><type>u</type></section></odML>') % tuple(VID % i for i in range(1, 7))
    s2 = ('<odML version="1.1"><id>%s</id><section><id>%s</id><name>a</name><type>t</type>'
          '<property><id>%s</id><name>p</name><value>2020-01-02</value><type>date</type></property></section></odML>'
          ) % tuple(VID % i for i in range(11, 14))
    s3 = ('<odML version="1.1"><id>%s</id><date>2020-01-02</date><section><id>%s</id><name>a</name><type>t</type>'
          '<sec_cardinality>(1,2)</sec_cardinality><definition>d</definition>'
          '<section><id>%s</id><name>b</name><type>t</type><link>/a/c</link></section>'
          '<section><id>%s</id><name>c</name><type>t</type>'
          '<property><id>%s</id><name>t</name><value>[(1;2),(3;4)]</value><type>2-tuple</type><val_cardinality>(1,3)</val_cardinality>'
          '</property></section></section></odML>') % tuple(VID % i for i in range(21, 26))
    return [("seed1", s1), ("seed2", s2), ("seed3", s3)]


MUT_TEXTS = ["", "x", "[", "(1,2)", "2020-01-02", "not-an-id", "\n  ", "1"]
RETAGS = ["section", "property", "value", "name", "type", "id", "foo", "odML", "val_cardinality", "link"]


class Mids(set):
    """ids a mutation may legitimately remove or replace; `touched`: id of the object -> tags of its plain attributes
    the mutation touched (every other plain attribute of that object is a valid part and has to survive)."""
    touched = None


COUPLED = {"value": ("value", "type"), "type": ("value", "type")}
OBJ_ATTRS = {
    "Document": [("author", "author"), ("version", "version"), ("date", "date"), ("repository", "repository")],
    "Section": [("name", "name"), ("type", "type"), ("definition", "definition"), ("reference", "reference"),
                ("repository", "repository"), ("link", "link"), ("include", "include"),
                ("sec_cardinality", "sec_cardinality"), ("prop_cardinality", "prop_cardinality")],
    "Property": [("name", "name"), ("type", "dtype"), ("unit", "unit"), ("uncertainty", "uncertainty"),
                 ("definition", "definition"), ("reference", "reference"), ("value_origin", "value_origin"),
                 ("dependency", "dependency"), ("dependencyvalue", "dependency_value"), ("value", "values"),
                 ("val_cardinality", "val_cardinality")],
}


def plain_attrs(obj):
    """tag -> repr of the plain attribute, for the comparison of surviving objects with the seed"""
    kind = type(obj).__name__.replace("Base", "")
    return {tag: repr(getattr(obj, attr, None)) for tag, attr in OBJ_ATTRS.get(kind, [])}


_SEED_ATTRS = {}


def seed_attrs(xml_text):
    """id -> plain attributes of the object, read from the unmutated seed"""
    if xml_text not in _SEED_ATTRS:
        from odml.tools.xmlparser import XMLReader
        doc = XMLReader(show_warnings=False).from_string(xml_text)
        _SEED_ATTRS[xml_text] = {o.id: plain_attrs(o) for o in tree.closure([doc])}
    return _SEED_ATTRS[xml_text]


def mutations(xml_text):
    """All single mutations of every element below the root: (label, mutated text, ids inside the mutated node)."""
    import lxml.etree as ET
    root = ET.fromstring(xml_text.encode())
    nodes = [n for n in root.iter() if n is not root]
    out = []

    def attr_level(n):
        """For a mutation that only touches one plain attribute element of an object (delete / duplicate / new text /
        XML attribute): nothing but that attribute (and what is coupled to it) is forgiven - the object keeps its id
        and its other attributes.  None when n is not such an element."""
        holder = n.getparent()
        if n.tag in ("section", "property") or len(n) or holder is None or holder.tag not in ("section", "property", "odML"):
            return None
        hid = holder.find("id")
        m = Mids()
        if hid is None:
            return None
        if n.tag == "id":
            m.add(hid.text)
            m.touched = {}
        else:
            m.touched = {hid.text: set(COUPLED.get(n.tag, (n.tag,)))}
        return m

    def ids_under(n):
        """ids the mutation of node n may legitimately remove or replace.
        n is an object element (section / property): the object and everything below it, plus the own id of the
        object that holds it (n may have become one of its attributes).
        n is an attribute element: only the own id of the object it belongs to - the lenient reader replaces an
        object it cannot create by a default one and keeps its children."""
        found = set()
        if n.tag in ("section", "property"):
            found |= set(i.text for i in n.iter("id"))
            holder = n.getparent()
        else:
            holder = n
        while holder is not None and holder.tag not in ("section", "property", "odML"):
            holder = holder.getparent()
        if holder is not None and holder.find("id") is not None:
            found.add(holder.find("id").text)
        if n.tag not in ("section", "property") and len(n):
            found |= set(i.text for i in n.iter("id"))
        return found

    for idx in range(len(nodes)):
        def fresh():
            r = ET.fromstring(xml_text.encode())
            ns = [n for n in r.iter() if n is not r]
            return r, ns
        base_ids = ids_under(nodes[idx])
        narrow = attr_level(nodes[idx])
        if narrow is None:
            narrow = base_ids
        tag = nodes[idx].tag
        # delete
        r, ns = fresh()
        ns[idx].getparent().remove(ns[idx])
        out.append(("delete:%s" % tag, ET.tostring(r).decode(), narrow))
        # duplicate
        r, ns = fresh()
        ns[idx].addnext(copy.deepcopy(ns[idx]))
        out.append(("duplicate:%s" % tag, ET.tostring(r).decode(), narrow))
        # re-tag
        for t in RETAGS:
            if t == tag:
                continue
            r, ns = fresh()
            ns[idx].tag = t
            out.append(("retag:%s->%s" % (tag, t), ET.tostring(r).decode(), base_ids))
        # swap with next sibling
        r, ns = fresh()
        nxt = ns[idx].getnext()
        if nxt is not None:
            nxt.addnext(ns[idx])
            out.append(("swap:%s" % tag, ET.tostring(r).decode(), base_ids))
        # move under every other node
        for j in range(len(nodes)):
            if j == idx:
                continue
            r, ns = fresh()
            if ns[idx] in list(ns[j].iterancestors()) or ns[j] is ns[idx]:
                continue
            tgt_ids = ids_under(nodes[j])
            ns[j].append(ns[idx])
            out.append(("move:%s->%s" % (tag, nodes[j].tag), ET.tostring(r).decode(), base_ids | tgt_ids))
        # clear / replace text (leaf elements)
        if len(nodes[idx]) == 0:
            for x in MUT_TEXTS:
                r, ns = fresh()
                ns[idx].text = x
                out.append(("text:%s=%r" % (tag, x), ET.tostring(r).decode(), narrow))
        # XML attribute
        r, ns = fresh()
        ns[idx].set("attr", "1")
        out.append(("attribute:%s" % tag, ET.tostring(r).decode(), narrow))
    return out


# --------------------------------------------------------------------------- layer (d): dictionaries

def seed_dict():
    return {"odml-version": "1.1", "Document": {
        "id": VID % 31, "author": "me", "date": "2020-01-02",
        "sections": [{"id": VID % 32, "name": "s1", "type": "t", "sec_cardinality": [1, 2],
                      "properties": [{"id": VID % 33, "name": "p1", "value": [1, 2], "type": "int", "unit": "mV",
                                      "val_cardinality": [1, 3]},
                                     {"id": VID % 34, "name": "p2", "value": ["x"], "dependency": "p1",
                                      "dependency_value": "1"}],
                      "sections": [{"id": VID % 35, "name": "s11", "type": "t", "properties": [], "sections": []}]},
                     {"id": VID % 36, "name": "s2", "type": "u"}]}}


DICT_VALUES = ["", "x", 5, None, [], [1, "x"], {"k": 1}, True, "not-an-id", "2020-13-45", [2, 1], "(1,2)", 1.5]


PLAIN_ATTRS = ("author", "date", "version", "type", "unit", "definition", "reference", "sec_cardinality", "val_cardinality",
               "prop_cardinality", "uncertainty", "value_origin", "dependency", "dependency_value")


def dict_mutations():
    """(label, data, judged, ids inside the mutated object)"""
    base = seed_dict()
    out = [("base", base, True, set())]

    def paths(d, prefix=()):
        res = []
        if isinstance(d, dict):
            for k, v in d.items():
                res.append(prefix + (k,))
                res.extend(paths(v, prefix + (k,)))
        elif isinstance(d, list):
            for i, v in enumerate(d):
                if isinstance(v, (dict, list)):
                    res.append(prefix + (i,))
                    res.extend(paths(v, prefix + (i,)))
        return res

    def get(d, p):
        for k in p:
            d = d[k]
        return d

    def ids_of(d, p):
        # the ids of the innermost object (dict with 'name' or the Document) containing the path, and everything below
        best = ()
        for n in range(len(p) + 1):
            sub = get(d, p[:n])
            if isinstance(sub, dict) and ("name" in sub or "sections" in sub and "id" in sub):
                best = p[:n]
        found = set()

        def rec(x):
            if isinstance(x, dict):
                if isinstance(x.get("id"), str):
                    found.add(x["id"])
                for v in x.values():
                    rec(v)
            elif isinstance(x, list):
                for v in x:
                    rec(v)
        rec(get(d, best))
        return found

    container_keys = {"Document", "sections", "properties"}
    for p in paths(base):
        key = p[-1]
        cur = get(base, p)
        ids = ids_of(base, p[:-1])
        if isinstance(key, str) and key in PLAIN_ATTRS:
            # a problem with one plain attribute of an object: the object itself, its id and everything below it
            # are valid parts and stay
            ids = set()
        # delete the key
        if isinstance(key, str):
            d = copy.deepcopy(base)
            del get(d, p[:-1])[key]
            out.append(("delete:%s" % key, d, True, ids))
            # rename the key
            for nk in ("foo", key.upper(), "value" if key != "value" else "values"):
                d = copy.deepcopy(base)
                tgt = get(d, p[:-1])
                tgt[nk] = tgt.pop(key)
                # renamed to 'value' it replaces the values of a Property, which may then not be creatable
                out.append(("rename:%s->%s" % (key, "upper" if nk == key.upper() else nk), d, True,
                            ids_of(base, p[:-1]) if nk == "value" else ids))
        # replace the value
        for v in DICT_VALUES:
            d = copy.deepcopy(base)
            get(d, p[:-1])[key] = v
            is_container = (isinstance(key, str) and key in container_keys) or isinstance(key, int) or key == "value"
            wrong_container = is_container and key != "value" and not (
                (key == "Document" and isinstance(v, dict)) or
                (key in ("sections", "properties") and isinstance(v, list) and all(isinstance(x, dict) for x in v)) or
                (isinstance(key, int) and isinstance(v, dict)))
            out.append(("set:%s=%s" % (key if isinstance(key, str) else "[i]", type(v).__name__ + ":" + repr(v)[:12]), d,
                        not wrong_container, ids))
        # duplicate a list element (duplicate names / ids)
        if isinstance(key, int):
            d = copy.deepcopy(base)
            lst = get(d, p[:-1])
            lst.append(copy.deepcopy(lst[key]))
            # only the duplicated object (two objects of one name and id: one of them has to go) and what lies
            # below it may vanish; its siblings and its parent are valid parts
            out.append(("duplicate-element", d, True, ids_of(base, p)))
    out.append(("root-list", [base], False, set()))
    out.append(("root-none", None, False, set()))
    out.append(("no-version", {"Document": base["Document"]}, True, set()))
    out.append(("version-1", {"Document": base["Document"], "odml-version": "1"}, True, set()))
    out.append(("version-number", {"Document": base["Document"], "odml-version": 1.1}, True, set()))
    out.append(("no-document", {"odml-version": "1.1"}, True, set()))
    out.append(("extra-root-key", dict(base, extra=1), True, set()))
    return out


# --------------------------------------------------------------------------- layer (e): deep nesting

DEPTHS = {"quick": [100, 250, 254, 255, 256, 300, 400, 1000, 3000],
          "thorough": [64, 100, 128, 200, 250, 254, 255, 256, 257, 300, 320, 330, 335, 340, 400, 500, 990, 1000, 2000, 3000,
                       10000]}
FRAME = '<odML version="1.1">%s</odML>'
DEEP_XML_SHAPES = ["sections-named", "sections-same-name", "sections-bare", "sections-head-last", "property-at-the-bottom",
                   "unknown-elements", "properties-nested", "values-nested", "names-nested", "section-property-alternating",
                   "roots-nested", "other-root", "never-closed", "closed-too-often"]
# Depth from which the lenient dictionary reader may answer with a ParserException ("nested too deeply"): deeper than
# any odML XML file can be under libxml2's default nesting limit (256), so deeper than anything the library itself can
# exchange; below it the lenient never-raises clause applies in full.
DICT_DEPTH_LIMIT_ALLOWED = 256
DEEP_DICT_SHAPES = ["sections-named", "sections-same-name", "sections-bare", "property-at-the-bottom", "value-nested-lists",
                    "attribute-nested-dicts", "unknown-key-nested-dicts", "unknown-key-nested-lists"]


def deep_xml(shape, n):
    """One document in which `n` elements are nested inside one another."""
    named = "".join("<section><name>s%d</name><type>t</type>" % i for i in range(n))
    if shape == "sections-named":
        return FRAME % (named + "</section>" * n)
    if shape == "sections-same-name":
        return FRAME % ("<section><name>s</name><type>t</type>" * n + "</section>" * n)
    if shape == "sections-bare":
        return FRAME % ("<section>" * n + "</section>" * n)
    if shape == "sections-head-last":
        return FRAME % ("<section>" * n + "<name>s</name><type>t</type></section>" * n)
    if shape == "property-at-the-bottom":
        return FRAME % (named + "<property><name>p</name><value>[1,2]</value><type>int</type></property>" + "</section>" * n)
    if shape == "unknown-elements":
        return FRAME % ("<foo>" * n + "</foo>" * n)
    if shape == "properties-nested":
        return FRAME % ("<section><name>s</name><type>t</type>" + "<property><name>p</name>" * n + "</property>" * n + "</section>")
    if shape == "values-nested":
        return FRAME % ("<section><name>s</name><type>t</type><property><name>p</name>" + "<value>" * n + "1" + "</value>" * n +
                        "</property></section>")
    if shape == "names-nested":
        return FRAME % ("<section><type>t</type>" + "<name>" * n + "s" + "</name>" * n + "</section>")
    if shape == "section-property-alternating":
        return FRAME % ("<section><name>s</name><type>t</type><property><name>p</name>" * (n // 2) +
                        "</property></section>" * (n // 2))
    if shape == "roots-nested":
        return '<odML version="1.1">' * n + "</odML>" * n
    if shape == "other-root":
        return "<a>" * n + "</a>" * n
    if shape == "never-closed":
        return '<odML version="1.1">' + named
    if shape == "closed-too-often":
        return FRAME % (named + "</section>" * (n + 1))
    raise KeyError(shape)


def deep_dict(shape, n):
    """The dictionary analogue, built from the inside out (no recursion in the harness)."""
    def doc(secs, **more):
        return {"odml-version": "1.1", "Document": dict({"sections": secs}, **more)}
    if shape in ("sections-named", "sections-same-name", "sections-bare", "property-at-the-bottom"):
        inner = []
        for i in range(n - 1, -1, -1):
            sec = {} if shape == "sections-bare" else {"name": "s" if shape == "sections-same-name" else "s%d" % i, "type": "t"}
            if shape == "property-at-the-bottom" and i == n - 1:
                sec["properties"] = [{"name": "p", "value": [1, 2], "type": "int"}]
            sec["sections"] = inner
            inner = [sec]
        return doc(inner)
    if shape == "value-nested-lists":
        v = 1
        for _ in range(n):
            v = [v]
        return doc([{"name": "s", "type": "t", "properties": [{"name": "p", "value": v}]}])
    if shape in ("attribute-nested-dicts", "unknown-key-nested-dicts", "unknown-key-nested-lists"):
        v = 1
        for _ in range(n):
            v = [v] if shape.endswith("lists") else {"k": v}
        return doc([{"name": "s", "type": "t", "definition" if shape.startswith("attribute") else "foo": v}])
    raise KeyError(shape)


def flow_text(data):
    """JSON text (which is YAML flow style as well) of nested dictionaries / lists, written without recursion."""
    out, todo = [], [(True, data)]
    while todo:
        is_value, x = todo.pop()
        if not is_value:
            out.append(x)
        elif isinstance(x, dict):
            seq = [(False, "{")]
            for i, (k, v) in enumerate(x.items()):
                seq += [(False, (", " if i else "") + json.dumps(str(k)) + ": "), (True, v)]
            todo.extend(reversed(seq + [(False, "}")]))
        elif isinstance(x, list):
            seq = [(False, "[")]
            for i, v in enumerate(x):
                seq += [(False, ", ")] if i else []
                seq.append((True, v))
            todo.extend(reversed(seq + [(False, "]")]))
        else:
            out.append(json.dumps(x))
    return "".join(out)


# --------------------------------------------------------------------------- layer (f): pumped input

# 10000 is the longest run: libxml2 needs quadratic time for some of them (100000 blanks inside an unterminated XML
# declaration, 100000 attributes: more than 5 s on the unchanged tree) - slow, which the statement does not forbid
PUMPS = {"quick": [30, 64, 5000], "thorough": [24, 27, 30, 40, 64, 100, 1000, 5000, 10000]}
LIST_PUMP_MAX = 500   # runs of whole elements / list items (objects are created for them: a second per 5000 in the readers)
WHITE = [("blank", " "), ("newline", "\n"), ("tab", "\t"), ("crlf", "\r\n"), ("mixed", " \n\t"), ("bom", "\ufeff"),
         ("bom-blank", "\ufeff "), ("nbsp", "\u00a0"), ("formfeed", "\x0c"), ("line-separator", "\u2028")]
DECL = '<?xml version="1.0" encoding="UTF-8"?>'
SEC_T = "<section><name>%s</name><type>t</type>%s</section>"
PROP_T = "<property><name>%s</name>%s</property>"
SMALL = FRAME % (SEC_T % ("a", PROP_T % ("p", "<value>[1,2]</value><type>int</type>")))


def run_of(unit, n):
    """n characters: `unit` over and over"""
    return (unit * (n // len(unit) + 1))[:n]


def _in_value(text, dtype=None):
    return FRAME % (SEC_T % ("a", PROP_T % ("p", "<value>%s</value>" % text + ("<type>%s</type>" % dtype if dtype else ""))))


def _esc(text):
    return text.replace("&", "&amp;").replace("<", "&lt;").replace(">", "&gt;")


def pumped_xml(site, n):
    """(variant, text) - every text holds one run of n repetitions of a single unit at a place where the readers
    match a regular expression, split, strip or loop."""
    out = []
    if site in ("lead-document", "lead-declaration", "lead-other", "lead-alone", "trail", "between"):
        for nm, u in WHITE:
            r = run_of(u, n)
            if site == "lead-document":
                out.append((nm, r + SMALL))
            elif site == "lead-declaration":
                out.append((nm, r + DECL + "\n" + SMALL))
                out.append((nm + "+no-root", r + DECL))
            elif site == "lead-other":
                out += [(nm + "+x", r + "x"), (nm + "+<", r + "<"), (nm + "+other-root", r + "<a/>"),
                        (nm + "+<?", r + "<?"), (nm + "+<?xm", r + "<?xm"), (nm + "+pi", r + "<?xmlx ?>" + SMALL),
                        (nm + "+old-version", r + '<odML version="1"/>')]
            elif site == "lead-alone":
                out.append((nm, r))
            elif site == "trail":
                out += [(nm, SMALL + r), (nm + "+x", SMALL + r + "x"), (nm + "+declaration", DECL + SMALL + r)]
            else:
                out += [(nm + "/declaration-root", DECL + r + SMALL),
                        (nm + "/root-section", SMALL.replace("<section>", r + "<section>", 1)),
                        (nm + "/in-name", SMALL.replace("<name>a</name>", "<name>%sa%s</name>" % (r, r), 1)),
                        (nm + "/in-tag", SMALL.replace("<section>", "<section%s>" % r, 1)),
                        (nm + "/in-root-tag", SMALL.replace('<odML version="1.1">', '<odML%sversion="1.1"%s>' % (r, r), 1))]
    elif site == "declaration":
        for nm, u in WHITE[:5] + [("x", "x"), ("question-mark", "?"), ("greater", ">"), ("less", "<"), ("quote", '"'),
                                  ("<?xml", "<?xml"), ("?>", "?>"), ("declaration", DECL), ("<?xml?>", "<?xml?>")]:
            r = run_of(u, n)
            out += [(nm + "/after-<?xml", "<?xml" + r + 'version="1.0"?>' + SMALL),
                    (nm + "/before-?>", '<?xml version="1.0"' + r + "?>" + SMALL),
                    (nm + "/unterminated", "<?xml" + r),
                    (nm + "/unterminated+document", "<?xml " + r + SMALL),
                    (nm + "/in-encoding", '<?xml version="1.0" encoding="%s"?>' % r.replace('"', "'") + SMALL),
                    (nm + "/alone", r)]
    elif site == "cardinality":
        for nm, u in [("digit-1", "1"), ("digit-0", "0"), ("digit-9", "9"), ("blank", " "), ("comma", ","), ("open", "("),
                      ("close", ")"), ("minus", "-"), ("plus", "+"), ("dot", "."), ("arabic-digit", "\u0663"), ("newline", "\n"),
                      ("None", "None"), ("pair", "(1,2)")]:
            r = run_of(u, n)
            for form, t in (("(1,R)", "(1,%s)" % r), ("(R,2)", "(%s,2)" % r), ("(R)", "(%s)" % r), ("R", r),
                            ("(1,2R)", "(1,2%s)" % r), ("R(1,2)", r + "(1,2)"), ("(1,2)R", "(1,2)" + r)):
                out.append(("%s/%s/section" % (nm, form), FRAME % (SEC_T % ("a", "<sec_cardinality>%s</sec_cardinality>" % t))))
                out.append(("%s/%s/value" % (nm, form),
                            FRAME % (SEC_T % ("a", PROP_T % ("p", "<value>1</value><val_cardinality>%s</val_cardinality>" % t)))))
    elif site == "value":
        for nm, u in [("comma", ","), ("dquote", '"'), ("open-bracket", "["), ("close-bracket", "]"), ("open", "("), ("close", ")"),
                      ("semicolon", ";"), ("blank", " "), ("newline", "\n"), ("letter", "a"), ("digit", "1"), ("quote", "'"),
                      ("backslash", "\\"), ("tuple,", "(1;2),"), ('"a",', '"a",'), ("1;", "1;"), ("amp", "&"), ("dot", "."),
                      ("minus", "-"), ("e", "e")]:
            r = _esc(run_of(u, n))
            for dtype in (None, "string", "int", "float", "2-tuple", "date", "boolean"):
                for form, t in (("R", r), ("[R]", "[%s]" % r), ("[R", "[" + r), ("(1R)", "(1%s)" % r), ("[1,R,2]", "[1,%s,2]" % r)):
                    if dtype in ("float", "date", "boolean") and form != "[R]":
                        continue
                    out.append(("%s/%s/%s" % (nm, form, dtype), _in_value(t, dtype)))
        for k in (n, n + 1, n - 1):
            out.append(("tuple/%s-elements-for-%d-tuple" % ("n" if k == n else "n+1" if k > n else "n-1", n),
                        _in_value("(" + ";".join(["1"] * k) + ")", "%d-tuple" % n)))
        out.append(("tuple/n-tuples", _in_value("[" + ",".join(["(1;2)"] * n) + "]", "2-tuple")))
    elif site == "text-slots":
        slots = [("name", SEC_T % ("%s", "")), ("type", "<section><name>a</name><type>%s</type></section>"),
                 ("id", SEC_T % ("a", "<id>%s</id>")), ("doc-id", "<id>%s</id>"), ("date", "<date>%s</date>"),
                 ("version", "<version>%s</version>"), ("author", "<author>%s</author>"),
                 ("repository", "<repository>%s</repository>"), ("link", SEC_T % ("a", "<link>%s</link>") + SEC_T % ("b", "")),
                 ("include", SEC_T % ("a", "<include>%s</include>")), ("definition", SEC_T % ("a", "<definition>%s</definition>")),
                 ("dtype", SEC_T % ("a", PROP_T % ("p", "<value>1</value><type>%s</type>"))),
                 ("unit", SEC_T % ("a", PROP_T % ("p", "<value>1</value><unit>%s</unit>"))),
                 ("uncertainty", SEC_T % ("a", PROP_T % ("p", "<value>1</value><uncertainty>%s</uncertainty>"))),
                 ("property-name", SEC_T % ("a", PROP_T % ("%s", "<value>1</value>"))),
                 ("dependency", SEC_T % ("a", PROP_T % ("p", "<value>1</value><dependency>%s</dependency>")))]
        for nm, u in [("letter", "a"), ("digit", "1"), ("slash", "/"), ("dot", "."), ("up", "../"), ("minus", "-"), ("blank", " "),
                      ("superscript", "\u00b2"), ("colon", ":"), ("zero", "0"), ("percent", "%"), ("hash", "#")]:
            r = run_of(u, n)
            for slot, tmpl in slots:
                out.append(("%s/%s" % (nm, slot), FRAME % (tmpl.replace("%s", r, 1).replace("%s", ""))))
                if slot == "dtype":
                    out.append(("%s/%s-tuple" % (nm, slot), FRAME % tmpl.replace("%s", r + "-tuple", 1)))
                if slot in ("link", "include"):
                    out.append(("%s/%s-then-name" % (nm, slot), FRAME % tmpl.replace("%s", r + "b", 1)))
                    out.append(("%s/file-url-%s" % (nm, slot), FRAME % tmpl.replace("%s", "file:///" + r + "#b", 1)))
    elif site == "xml-attributes":
        for nm, u in [("letter", "a"), ("digit", "1"), ("blank", " "), ("dot", "."), ("amp", "&amp;"), ("apostrophe", "'")]:
            r = run_of(u, n) if u != "&amp;" else u * n
            out += [(nm + "/other-attribute", SMALL.replace('version="1.1"', 'version="1.1" x="%s"' % r, 1)),
                    (nm + "/version-tail", SMALL.replace('version="1.1"', 'version="1.1%s"' % r, 1)),
                    (nm + "/version-head", SMALL.replace('version="1.1"', 'version="%s1.1"' % r, 1)),
                    (nm + "/version", SMALL.replace('version="1.1"', 'version="%s"' % r, 1)),
                    (nm + "/section-attribute", SMALL.replace("<section>", '<section x="%s">' % r, 1)),
                    (nm + "/value-attribute", SMALL.replace("<value>", '<value x="%s">' % r, 1))]
        attrs = " ".join('a%d="1"' % i for i in range(n))
        out += [("many/root-attributes", SMALL.replace('version="1.1"', 'version="1.1" ' + attrs, 1)),
                ("many/section-attributes", SMALL.replace("<section>", "<section %s>" % attrs, 1)),
                ("long/element-name", FRAME % ("<%s/>" % ("a" * n))),
                ("long/root-name", "<%s/>" % ("a" * n)),
                ("long/root-name-odML", '<odML%s version="1.1"/>' % ("L" * n)),
                ("long/namespace", '<odML version="1.1" xmlns="%s"/>' % ("u" * n)),
                ("long/prefix", '<%s:odML version="1.1" xmlns:%s="urn:x"/>' % ("p" * n, "p" * n))]
    elif site == "markup":
        for nm, u in [("less", "<"), ("greater", ">"), ("amp", "&"), ("slash", "/"), ("</", "</"), ("<a>", "<a>"),
                      ("<!--", "<!--"), ("]]>", "]]>"), ("<![CDATA[", "<![CDATA["), ("&#", "&#"), ("<?", "<?"), ("dquote", '"'),
                      ("equals", "="), ("<odML>", "<odML>"), ("</odML>", "</odML>"), ("<section>", "<section>")]:
            r = u * n
            out += [(nm + "/alone", r), (nm + "/framed", FRAME % r), (nm + "/before-document", r + SMALL),
                    (nm + "/after-document", SMALL + r)]
        out += [("entity/&amp;", _in_value("&amp;" * n)), ("entity/&#32;", _in_value("&#32;" * n)),
                ("entity/&#x", _in_value("&#x" + "0" * n + "41;")), ("entity/undefined", _in_value("&" + "e" * n + ";")),
                ("comment/long", FRAME % ("<!--" + "x" * n + "-->") + ""), ("comment/dashes", FRAME % ("<!--" + "-" * n + "-->")),
                ("comment/many", FRAME % ("<!-- c -->" * n)), ("comment/before-root", "<!--" + " " * n + "-->" + SMALL),
                ("cdata/brackets", _in_value("<![CDATA[" + "]" * n + "]]>")), ("cdata/many", _in_value("<![CDATA[a]]>" * n)),
                ("pi/long", "<?pi " + "x" * n + "?>" + SMALL), ("pi/many", FRAME % ("<?pi x?>" * n)),
                ("doctype/long-entity", '<!DOCTYPE odML [<!ENTITY e "%s">]>' % ("x" * n) + _in_value("&e;")),
                ("doctype/many-references", '<!DOCTYPE odML [<!ENTITY e "x">]>' + _in_value("&e;" * n)),
                ("doctype/many-entities", "<!DOCTYPE odML [%s]>" % "".join('<!ENTITY e%d "x">' % i for i in range(n)) + SMALL)]
        # entity amplification: k levels of tenfold expansion (k grows with the logarithm of n)
        for k in sorted(set([2, 3, len(str(n)), len(str(n)) + 2])):
            ents = '<!ENTITY e0 "x">' + "".join('<!ENTITY e%d "%s">' % (i, ("&e%d;" % (i - 1)) * 10) for i in range(1, k + 1))
            out.append(("doctype/amplification-%d-levels" % k, "<!DOCTYPE odML [%s]>" % ents + _in_value("&e%d;" % k)))
    elif site == "siblings":
        m = n = min(n, LIST_PUMP_MAX)
        out += [("sections", FRAME % "".join(SEC_T % ("s%d" % i, "") for i in range(m))),
                ("sections-same-name", FRAME % (SEC_T % ("s", "") * m)),
                ("sections-bare", FRAME % ("<section/>" * m)),
                ("subsections-same-name", FRAME % (SEC_T % ("o", SEC_T % ("s", "") * m))),
                ("properties", FRAME % (SEC_T % ("a", "".join(PROP_T % ("p%d" % i, "<value>1</value>") for i in range(m))))),
                ("properties-same-name", FRAME % (SEC_T % ("a", PROP_T % ("p", "<value>1</value>") * m))),
                ("value-elements", FRAME % (SEC_T % ("a", PROP_T % ("p", "<value>1</value>" * n)))),
                ("name-elements", FRAME % ("<section>" + "<name>a</name>" * n + "<type>t</type></section>")),
                ("unknown-elements", FRAME % ("<foo/>" * n)),
                ("unknown-elements-in-section", FRAME % (SEC_T % ("a", "<foo>x</foo>" * n))),
                ("doc-ids", FRAME % (("<id>%s</id>" % (VID % 1)) * n)),
                ("doc-dates", FRAME % ("<date>x</date>" * n)),
                ("values-in-one-element", _in_value("[" + ",".join(["1"] * n) + "]", "int")),
                ("links", FRAME % ("".join(SEC_T % ("s%d" % i, "<link>/s%d</link>" % ((i + 1) % m)) for i in range(m))))]
    else:
        raise KeyError(site)
    return out


XML_SITES = ["lead-document", "lead-declaration", "lead-other", "lead-alone", "trail", "between", "declaration", "cardinality",
             "value", "text-slots", "xml-attributes", "markup", "siblings"]
DICT_SITES = ["attribute-text", "cardinality", "value", "lists", "text-lead"]


def pumped_dict(site, n):
    """(variant, dictionary or None, text or None): pumped dictionaries (and pumped JSON / YAML text around a valid one)."""
    def doc(sec=None, prop=None, **more):
        s = dict({"name": "s", "type": "t"}, **(sec or {}))
        if prop is not None:
            s["properties"] = [dict({"name": "p"}, **prop)]
        return {"odml-version": "1.1", "Document": dict({"sections": [s]}, **more)}
    out = []
    units = [("letter", "a"), ("digit", "1"), ("blank", " "), ("slash", "/"), ("comma", ","), ("open", "("), ("semicolon", ";"),
             ("dquote", '"'), ("open-bracket", "["), ("newline", "\n"), ("minus", "-"), ("dot", ".")]
    if site == "attribute-text":
        for nm, u in units:
            r = run_of(u, n)
            for key in ("name", "type", "id", "definition", "reference", "repository", "link", "include"):
                out.append(("%s/section-%s" % (nm, key), doc(sec={key: r}), None))
            for key in ("name", "id", "type", "unit", "uncertainty", "definition", "dependency", "value_origin"):
                out.append(("%s/property-%s" % (nm, key), doc(prop={key: r, "value": [1]}), None))
            out.append(("%s/property-type-tuple" % nm, doc(prop={"type": r + "-tuple", "value": "(1;2)"}), None))
            for key in ("id", "author", "date", "version", "repository"):
                out.append(("%s/document-%s" % (nm, key), doc(**{key: r}), None))
            out.append(("%s/unknown-key" % nm, doc(sec={r: 1}), None))
            out.append(("%s/odml-version" % nm, dict(doc(), **{"odml-version": r}), None))
            out.append(("%s/odml-version-tail" % nm, dict(doc(), **{"odml-version": "1.1" + r}), None))
    elif site == "cardinality":
        for nm, u in units + [("None", "None")]:
            r = run_of(u, n)
            for form, t in (("(1,R)", "(1,%s)" % r), ("(R,2)", "(%s,2)" % r), ("R", r), ("[1,R]", [1, r]), ("[R,None]", [r, None])):
                out.append(("%s/%s/section" % (nm, form), doc(sec={"sec_cardinality": t}), None))
                out.append(("%s/%s/value" % (nm, form), doc(prop={"value": [1], "val_cardinality": t}), None))
        m = min(n, LIST_PUMP_MAX)
        for form, t in (("n-ones", [1] * m), ("n-pairs", [[1, 2]] * m), ("big-number", [1, int("1" * min(n, 4000))]),
                        ("n-nones", [None] * m)):
            out.append(("list/%s/section" % form, doc(sec={"prop_cardinality": t}), None))
            out.append(("list/%s/value" % form, doc(prop={"value": [1], "val_cardinality": t}), None))
    elif site == "value":
        for nm, u in units + [("tuple,", "(1;2),"), ("1;", "1;"), ('"a",', '"a",')]:
            r = run_of(u, n)
            for dtype in (None, "string", "int", "2-tuple", "date"):
                for form, t in (("R", r), ("[R]", [r]), ("text-[R]", "[%s]" % r), ("(1R)", "(1%s)" % r)):
                    out.append(("%s/%s/%s" % (nm, form, dtype), doc(prop=dict({"value": t}, **({"type": dtype} if dtype else {}))),
                                None))
        out.append(("tuple/n-elements", doc(prop={"value": "(" + ";".join(["1"] * n) + ")", "type": "%d-tuple" % n}), None))
        out.append(("tuple/n-tuples-text", doc(prop={"value": "[" + ",".join(["(1;2)"] * n) + "]", "type": "2-tuple"}), None))
        m = min(n, LIST_PUMP_MAX)
        out.append(("tuple/n-tuples-list", doc(prop={"value": ["(1;2)"] * m, "type": "2-tuple"}), None))
        out.append(("n-values", doc(prop={"value": [1] * m, "type": "int"}), None))
        out.append(("n-values-mixed", doc(prop={"value": [1, "x"] * (m // 2)}), None))
    elif site == "lists":
        m = n = min(n, LIST_PUMP_MAX)
        sec = {"name": "s", "type": "t"}
        out += [("sections", {"odml-version": "1.1", "Document": {"sections": [dict(sec, name="s%d" % i) for i in range(m)]}}, None),
                ("sections-same-name", {"odml-version": "1.1", "Document": {"sections": [dict(sec) for _ in range(m)]}}, None),
                ("sections-empty", {"odml-version": "1.1", "Document": {"sections": [{} for _ in range(m)]}}, None),
                ("properties", doc(sec={"properties": [{"name": "p%d" % i, "value": [1]} for i in range(m)]}), None),
                ("properties-same-name", doc(sec={"properties": [{"name": "p", "value": [1]} for _ in range(m)]}), None),
                ("unknown-keys", doc(sec=dict(("k%d" % i, 1) for i in range(n))), None),
                ("unknown-root-keys", dict(doc(), **dict(("k%d" % i, 1) for i in range(n))), None)]
    elif site == "text-lead":
        base = doc(prop={"value": [1, 2], "type": "int"})
        jt = json.dumps(base)
        for nm, u in WHITE:
            r = run_of(u, n)
            out += [(nm + "/lead", None, r + jt), (nm + "/trail", None, jt + r), (nm + "/alone", None, r),
                    (nm + "/inside", None, jt.replace(": ", ":" + r, 1)), (nm + "/after-open", None, "{" + r + jt[1:])]
        for nm, u in [("open-brace", "{"), ("open-bracket", "["), ("dquote", '"'), ("colon", ":"), ("comma", ","), ("minus", "-"),
                      ("hash", "#"), ("amp", "&"), ("star", "*"), ("bang", "!"), ("percent", "%"), ("question", "?"),
                      ("pipe", "|"), ("digit", "1"), ("dash-line", "-\n"), ("dashes", "---\n")]:
            r = run_of(u, n)
            out += [(nm + "/alone", None, r), (nm + "/lead", None, r + jt), (nm + "/trail", None, jt + r)]
    else:
        raise KeyError(site)
    return out


# --------------------------------------------------------------------------- cases

STRING_LENGTH = {"quick": 6, "thorough": 8}


def gen_cases(tier):
    L = STRING_LENGTH[tier]
    cases = []
    # (a) strings: chunked by their first two (from length 7 on: three) letters
    for n in range(0, 3):
        cases.append({"layer": "a", "length": n, "prefix": ""})
    for n in range(3, L + 1):
        for pre in itertools.product(ALPHABET, repeat=2 if n < 7 else 3):
            cases.append({"layer": "a", "length": n, "prefix": "".join(pre)})
    g = grammar_docs(tier)
    for i in range(0, len(g), 150):
        cases.append({"layer": "b", "slice": [i, i + 150]})
    for name, text in seeds():
        n = len(mutations(text))
        for i in range(0, n, 150):
            cases.append({"layer": "c", "seed": name, "slice": [i, i + 150], "pairs": False})
    if tier == "thorough":
        for name, text in seeds():
            n = len(mutations(text))
            for i in range(0, n, 4):
                cases.append({"layer": "c", "seed": name, "slice": [i, i + 4], "pairs": True})
    d = dict_mutations()
    for i in range(0, len(d), 100):
        cases.append({"layer": "d", "slice": [i, i + 100]})
    # (e) deep nesting, (f) pumped input: one case per shape / site, every input with a watchdog of its own
    for kind, shapes in (("xml", DEEP_XML_SHAPES), ("dict", DEEP_DICT_SHAPES)):
        for shape in shapes:
            for i in range(0, len(DEPTHS[tier]), 5):
                cases.append({"layer": "e", "kind": kind, "shape": shape, "depths": DEPTHS[tier][i:i + 5]})
    for site in XML_SITES:
        for n in PUMPS[tier]:
            cases.append({"layer": "f", "kind": "xml", "site": site, "n": n, "part": [0, 1]})
    for site in DICT_SITES:
        for n in PUMPS[tier]:
            k = 1 if n < 1000 else 6      # pure-Python YAML: a case with all long inputs of a site would take 10 s
            for i in range(k):
                cases.append({"layer": "f", "kind": "dict", "site": site, "n": n, "part": [i, k]})
    return cases


def run_case(case):
    scratch = env.fresh_dir("c16")
    try:
        return _run(case, scratch)
    finally:
        env.drop_dir(scratch)


def _run(case, scratch):
    fails = []
    seen = set()
    stats = {"execs": 0, "wellformed": 0, "either": 0, "leaks": 0, "expired": 0, "hist": {}}
    only = case.get("only")   # replay of one input of a layer (e) / (f) case
    skipped = 0

    def fail(clause, entry, label, observed):
        key = (clause, entry, label.split("=")[0] if case["layer"] in ("c", "d") else label.split("/")[0])
        if key in seen:
            return
        seen.add(key)
        fails.append(report.failure("readers", {"clause": clause, "entry": entry, "layer": case["layer"],
                                                "input": key[2]},
                                    dict(case, label=label), observed=observed, explain=label))
    n_inputs = 0
    if case["layer"] == "a":
        n = case["length"]
        rest = n - len(case["prefix"])
        frame = '<odML version="1.1">%s</odML>'
        for tail in itertools.product(ALPHABET, repeat=max(rest, 0)):
            s = case["prefix"] + "".join(tail)
            if len(s) != n:
                continue
            n_inputs += 1
            judge_xml(s, False, scratch, "string/%r" % s, fail, stats)
            judge_xml(frame % s, False, scratch, "framed/%r" % s, fail, stats)
            if n <= 3:
                judge_xml(s, True, scratch, "file/%r" % s, fail, stats)
    elif case["layer"] == "b":
        for label, text in grammar_docs(case.get("tier", "quick"))[case["slice"][0]:case["slice"][1]]:
            n_inputs += 1
            judge_xml(text, False, scratch, label, fail, stats)
            judge_xml(text, True, scratch, label, fail, stats)
    elif case["layer"] == "c":
        import lxml.etree as ET
        text = dict(seeds())[case["seed"]]
        all_ids = set(i.text for i in ET.fromstring(text.encode()).iter("id"))
        muts = mutations(text)
        for label, mtext, mids in muts[case["slice"][0]:case["slice"][1]]:
            if not case.get("pairs"):
                n_inputs += 1
                judge_xml(mtext, False, scratch, label, fail, stats, seed_ids=all_ids, mutated_ids=mids, seed_text=text)
                judge_xml(mtext, True, scratch, label, fail, stats, seed_ids=all_ids, mutated_ids=mids, seed_text=text)
            else:
                try:
                    second = mutations(mtext)
                except Exception:
                    continue
                for l2, t2, m2 in second[::(7 if case["seed"] != "seed2" else 2)]:
                    n_inputs += 1
                    judge_xml(t2, False, scratch, label + "+" + l2, fail, stats)
    elif case["layer"] == "d":
        import yaml
        for label, data, judged, mids in dict_mutations()[case["slice"][0]:case["slice"][1]]:
            n_inputs += 1
            all_ids = set(VID % i for i in range(31, 37))
            judge_dict(data, label, fail, stats, judged=judged, seed_ids=all_ids if judged else None, mutated_ids=mids)
            try:
                jt = json.dumps(data)
                yt = yaml.safe_dump(data)
            except Exception:
                continue
            judge_text("JSON", jt, label, fail, stats, scratch, judged=judged)
            judge_text("YAML", yt, label, fail, stats, scratch, judged=judged)
    elif case["layer"] == "e":
        for depth in case["depths"]:
            label = "deep-%s:%s/%d" % (case["kind"], case["shape"], depth)
            if only is not None and label != only:
                continue
            if stats["expired"] >= MAX_EXPIRIES:
                skipped += 1
                continue
            n_inputs += 1
            if case["kind"] == "xml":
                text = deep_xml(case["shape"], depth)
                judge_xml(text, False, scratch, label, fail, stats, call=guarded)
                judge_xml(text, True, scratch, label, fail, stats, call=guarded)
                continue
            shape = case["shape"]
            text = flow_text(deep_dict(shape, depth))
            judge_dict(deep_dict(shape, 1), label, fail, stats, call=guarded, fresh=lambda: deep_dict(shape, depth),
                       lenient_may_refuse=depth >= DICT_DEPTH_LIMIT_ALLOWED)
            judge_text("JSON", text, label, fail, stats, scratch, call=guarded, decodable_only=True)
            judge_text("YAML", text, label, fail, stats, scratch, call=guarded, decodable_only=True)
    elif case["layer"] == "f":
        n = case["n"]
        inputs = [(v, t, None) for v, t in pumped_xml(case["site"], n)] if case["kind"] == "xml" else [
            (v, t, d) for v, d, t in pumped_dict(case["site"], n)]
        for variant, text, data in inputs[case["part"][0]::case["part"][1]]:
            label = "pump-%s:%s/%s/%d" % (case["kind"], case["site"], variant, n)
            if only is not None and label != only:
                continue
            if stats["expired"] >= MAX_EXPIRIES:
                skipped += 1
                continue
            n_inputs += 1
            if case["kind"] == "xml":
                judge_xml(text, False, scratch, label, fail, stats, call=guarded)
                judge_xml(text, True, scratch, label, fail, stats, call=guarded)
                continue
            if data is not None:
                judge_dict(data, label, fail, stats, call=guarded)
                text = json.dumps(data)
            judge_text("JSON", text, label, fail, stats, scratch, call=guarded, decodable_only=True)
            judge_text("YAML", text, label, fail, stats, scratch, call=guarded, decodable_only=True)
    if skipped:
        stats["hist"]["<inputs skipped after %d watchdog expiries in the case>" % MAX_EXPIRIES] = skipped
    if stats["expired"]:
        stats["hist"]["<did not terminate>"] = stats["expired"]
    outs = []
    for k, n in stats["hist"].items():
        outs += [k] * n
    return {"failures": fails, "outcomes": outs + ["layer-%s" % case["layer"]], "nontrivial": stats["wellformed"],
            "execs": max(stats["execs"], 1), "states": n_inputs}


def check(tier):
    run = report.Run(PROP, tier, LEVEL, RULE, assumptions=[
        "dictionaries with a wrong *container* type (sections: 5, Document: None, a list at the root) are executed and counted "
        "but not judged: the statement covers input 'shaped like an odML dictionary'",
        "JSON / YAML text that is not decodable at all is outside the statement (ODMLReader returns None for it)",
        "a mutation may remove the object it touches (and, for a move, the object it moves into): those ids are not demanded back",
        "includes use file: URLs that do not exist; no network",
        "well-formed means: accepted by lxml with its default resource limits (nesting depth 256); text beyond these limits "
        "may be read or refused with a ParserException, in lenient mode too",
        "JSON / YAML text that json.loads / yaml.safe_load themselves refuse (nesting beyond their recursion limits) is not "
        "handed to ODMLReader",
        "layers e/f: 'never hangs' is judged per reader call as 5 s of processor time (the longest call on the unchanged "
        "tree takes about 0.5 s); runs of whole elements / list items are capped at %d repetitions" % LIST_PUMP_MAX,
        "a dictionary nested %d levels or deeper (more than an odML XML file can hold under libxml2's default limit) may be "
        "answered with a ParserException by the lenient dictionary reader as well" % DICT_DEPTH_LIMIT_ALLOWED,
    ])
    cases = gen_cases(tier)
    for c in cases:
        c["tier"] = tier
    # the cases of layers (e) and (f) take seconds, the others fractions of a second, and the runner cuts the list into
    # runs of neighbours: deal the long ones out evenly (longest first) instead of leaving them together at the end
    long_ones = sorted([c for c in cases if c["layer"] in "ef"], key=lambda c: (-c.get("n", 10 ** 6), c["kind"] != "dict"))
    rest = [c for c in cases if c["layer"] not in "ef"]
    step = max(len(rest) // max(len(long_ones), 1), 1)
    cases = []
    for i, c in enumerate(long_ones):
        cases += [c] + rest[i * step:(i + 1) * step]
    cases += rest[len(long_ones) * step:]
    run.bounds = {"string_length": STRING_LENGTH[tier], "alphabet": ALPHABET, "grammar_documents": len(grammar_docs(tier)),
                  "mutations": {n: len(mutations(t)) for n, t in seeds()}, "dictionary_inputs": len(dict_mutations()),
                  "nesting_depths": DEPTHS[tier], "nesting_shapes": {"xml": DEEP_XML_SHAPES, "dictionary": DEEP_DICT_SHAPES},
                  "pump_lengths": PUMPS[tier], "pump_sites": {"xml": XML_SITES, "dictionary": DICT_SITES},
                  "input_watchdog_cpu_s": INPUT_WATCHDOG_S, "expiries_before_a_case_is_cut_short": MAX_EXPIRIES}
    run.layer("cases", chunks=len(cases))
    par.run_cases(run, "checks.c16", cases, nchunks=par.JOBS * 16)
    return run.finish(reproduce=lambda f: replay(f))


def replay(rec):
    env.reset_globals(env.SEED)
    case = dict(rec["case"])
    label = case.pop("label", None)
    if case.get("layer") in ("e", "f") and label is not None:
        case["only"] = label    # every input of these layers stands alone (and may cost a whole watchdog period)
    want = rec.get("desc")
    return [f for f in run_case(case)["failures"] if want is None or f["desc"] == want] or []
