"""C16 - readers are total.

Input engine over four layers of *input text / dictionaries*:
 (a) all strings of length <=L over a 9-letter alphabet, bare and inside a valid <odML> frame;
 (b) grammar trees over the odML element names (wrong nesting, repeated / missing / unknown /
     upper-case elements, unparsable text per slot, XML attributes, PIs, comments, CDATA, entities);
 (c) every single structural mutation of every node of three valid seed files (pairs on the
     smallest seed, thorough);
 (d) the same as dictionaries for DictReader.to_odml and as JSON / YAML text for ODMLReader.
Outcome invariant: a Document or ParserException (InvalidVersionException exactly for an odML
root of another version); lenient + well-formed + current odML root never raises; every returned
Document satisfies the tree and naming invariants; untouched seed nodes survive in lenient mode."""
import copy
import itertools
import json
import os

from mc import env, par, report, snapshot
from ref import tree

PROP = "C16"
LEVEL = "model_checking"
RULE = ("all strings of length <=L over {< > / a \" = space & [} bare and framed; all element trees with <=2 (reduced tag set: "
        "<=3) nodes under the root x text variants per slot; every single mutation of every node of 3 seed files; the "
        "dictionary analogue; each x strict/lenient x string/file; non-trivial = input that is well-formed and has an odML "
        "(or Document) root")
WATCHDOG_S = 120

ALPHABET = ["<", ">", "/", "a", '"', "=", " ", "&", "["]
VID = "11111111-2222-4333-8444-%012d"

DOC_TAGS = ["id", "author", "version", "date", "repository", "section", "property", "foo", "Section", "value"]
SEC_TAGS = ["name", "type", "id", "definition", "reference", "repository", "link", "include", "section", "property",
            "sec_cardinality", "prop_cardinality", "foo", "NAME", "value", "odML"]
PROP_TAGS = ["name", "id", "value", "type", "unit", "uncertainty", "definition", "dependency", "dependencyvalue", "reference",
             "value_origin", "val_cardinality", "section", "property", "foo", "Value"]
TEXTS = {
    "id": ["", "not-an-id", VID % 7, "5", "\u00b2" * 32],
    "date": ["", "2020-13-45", "x", "2020-01-02"],
    "sec_cardinality": ["", "(a,b)", "x", "(2,1)", "(1,2)", "(-1,2)", "(\u00b2,3)", "(\u0663,\u0664)", "(1.0,2)", "(+1,2)", "( 1 , 2 )"],
    "prop_cardinality": ["", "(a,b)", "(1,2,3)", "(1,2)"],
    "val_cardinality": ["", "(a,b)", "()", "(0,1)"],
    "value": ["", "x", "[1,x]", "[", "(1;2;3)", '["', "[" + "a" * 140000 + ",b]", '["a,b]', "[a\nb]"],
    "type": ["", "int", "foo", "2-tuple", "string"],
    "uncertainty": ["", "abc", "0.5", "\u00b2", "1e999", "nan"],
    "link": ["", "nope", "/", ".."],
    "include": ["", "file:///nonexistent/f.xml#x", "not a url"],
    "name": ["", "n", "a/b"],
}
DEFAULT_TEXTS = ["", "x"]


# --------------------------------------------------------------------------- judging

def judge_xml(text, is_file, scratch, label, fail, stats, seed_ids=None, mutated_ids=()):
    """Run the XML reader strict and lenient on `text`; apply the outcome invariant."""
    import lxml.etree as ET
    from odml.tools.xmlparser import XMLReader
    from odml.tools.parser_utils import ParserException, InvalidVersionException
    from odml.doc import BaseDocument
    data = text.encode("utf-8") if isinstance(text, str) else text
    def parse(b):
        try:
            return ET.fromstring(b, ET.XMLParser(remove_comments=True)), True
        except ET.XMLSyntaxError:
            return None, False
        except Exception:
            return None, False
    root, wellformed = parse(data)
    if not wellformed and not is_file and isinstance(text, str):
        # for text that is already decoded the encoding named in an XML declaration has no meaning
        import re
        stripped = re.sub(r"^\s*<\?xml[^>]*\?>", "", text, count=1)
        if stripped != text:
            root, wellformed = parse(stripped.encode("utf-8"))
    odml_root = wellformed and root.tag == "odML"
    other_version = odml_root and "version" in root.attrib and root.attrib["version"] != "1.1"
    current = odml_root and root.attrib.get("version") == "1.1"
    outcomes = {}
    for lenient in (False, True):
        r = XMLReader(ignore_errors=lenient, show_warnings=False)
        entry = "%s:%s" % ("from_file" if is_file else "from_string", "lenient" if lenient else "strict")
        try:
            if is_file:
                path = os.path.join(scratch, "in.xml")
                with open(path, "wb") as fh:
                    fh.write(data)
                doc = r.from_file(path)
            else:
                doc = r.from_string(text)
            stats["execs"] += 1
            if not isinstance(doc, BaseDocument):
                fail("reader-returned-something-else", entry, label, type(doc).__name__)
                outcomes[lenient] = "other"
                continue
            outcomes[lenient] = "document"
            objs = tree.closure([doc])
            bad = tree.tree_violations(objs) + tree.naming_violations(objs)
            if bad:
                fail("returned-document-breaks-the-tree-or-naming-invariant:" + bad[0][0], entry, label, bad[0][1])
            if not odml_root:
                fail("document-returned-for-input-without-odML-root", entry, label, None)
            if lenient and seed_ids is not None:
                have = set(o.id for o in objs)
                lost = sorted(i for i in seed_ids if i not in have and i not in mutated_ids)
                if lost:
                    fail("lenient-reader-lost-valid-parts", entry, label, lost[:3])
        except InvalidVersionException:
            stats["execs"] += 1
            outcomes[lenient] = "invalid-version"
            if not other_version:
                fail("InvalidVersionException-for-input-that-is-not-another-odML-version", entry, label, None)
        except ParserException as exc:
            stats["execs"] += 1
            outcomes[lenient] = "parser-exception"
            if other_version:
                fail("other-format-version-not-reported-as-InvalidVersionException", entry, label, str(exc)[:100])
            if lenient and current:
                fail("lenient-reader-raises-on-wellformed-odML", entry, label, str(exc)[:160])
        except env.Timeout:
            raise
        except BaseException as exc:
            stats["execs"] += 1
            outcomes[lenient] = "leak:" + type(exc).__name__
            fail("reader-leaks-" + type(exc).__name__, entry, label, str(exc)[:160])
            continue
        if lenient and outcomes.get(False) == "parser-exception" and outcomes.get(True) == "document" and not r.warnings:
            fail("strict-raises-but-lenient-records-no-warning", entry, label, None)
    stats["wellformed"] += int(bool(odml_root))
    for lenient, oc in outcomes.items():
        k = "xml:%s:%s" % ("lenient" if lenient else "strict", oc)
        stats["hist"][k] = stats["hist"].get(k, 0) + 1
    return outcomes


def judge_dict(data, label, fail, stats, judged=True, seed_ids=None, mutated_ids=()):
    from odml.tools.dict_parser import DictReader
    from odml.tools.parser_utils import ParserException, InvalidVersionException
    from odml.doc import BaseDocument
    shaped = isinstance(data, dict) and isinstance(data.get("Document"), dict) and "odml-version" in data
    other_version = shaped and data.get("odml-version") != "1.1"
    for lenient in (False, True):
        entry = "DictReader.to_odml:%s" % ("lenient" if lenient else "strict")
        r = DictReader(show_warnings=False, ignore_errors=lenient)
        try:
            doc = r.to_odml(copy.deepcopy(data))
            stats["execs"] += 1
            stats["hist"]["dict:%s:document" % ("lenient" if lenient else "strict")] = stats["hist"].get(
                "dict:%s:document" % ("lenient" if lenient else "strict"), 0) + 1
            if not isinstance(doc, BaseDocument):
                if judged:
                    fail("reader-returned-something-else", entry, label, type(doc).__name__)
                continue
            objs = tree.closure([doc])
            bad = tree.tree_violations(objs) + tree.naming_violations(objs)
            if bad:
                fail("returned-document-breaks-the-tree-or-naming-invariant:" + bad[0][0], entry, label, bad[0][1])
            if lenient and seed_ids is not None:
                have = set(o.id for o in objs)
                lost = sorted(i for i in seed_ids if i not in have and i not in mutated_ids)
                if lost:
                    fail("lenient-reader-lost-valid-parts", entry, label, lost[:3])
        except InvalidVersionException:
            stats["execs"] += 1
            if judged and not other_version:
                fail("InvalidVersionException-for-input-that-is-not-another-odML-version", entry, label, None)
        except ParserException as exc:
            stats["execs"] += 1
            stats["hist"]["dict:%s:parser-exception" % ("lenient" if lenient else "strict")] = stats["hist"].get(
                "dict:%s:parser-exception" % ("lenient" if lenient else "strict"), 0) + 1
            if judged and lenient and shaped and not other_version:
                fail("lenient-reader-raises-on-odML-shaped-dictionary", entry, label, str(exc)[:160])
        except env.Timeout:
            raise
        except BaseException as exc:
            stats["execs"] += 1
            stats["either" if not judged else "leaks"] += 1
            if judged:
                fail("reader-leaks-" + type(exc).__name__, entry, label, str(exc)[:160])
    stats["wellformed"] += int(bool(shaped))


def judge_text(fmt, text, label, fail, stats, scratch, judged=True):
    """JSON / YAML text through ODMLReader (string and file)."""
    from odml.tools.odmlparser import ODMLReader
    from odml.tools.parser_utils import ParserException
    from odml.doc import BaseDocument
    for how in ("from_string", "from_file"):
        entry = "ODMLReader(%s).%s" % (fmt, how)
        try:
            if how == "from_string":
                doc = ODMLReader(fmt, show_warnings=False).from_string(text)
            else:
                path = os.path.join(scratch, "in." + fmt.lower())
                with open(path, "w", encoding="utf-8") as fh:
                    fh.write(text)
                doc = ODMLReader(fmt, show_warnings=False).from_file(path)
            stats["execs"] += 1
            if isinstance(doc, BaseDocument):
                objs = tree.closure([doc])
                bad = tree.tree_violations(objs) + tree.naming_violations(objs)
                if bad:
                    fail("returned-document-breaks-the-tree-or-naming-invariant:" + bad[0][0], entry, label, bad[0][1])
        except ParserException:
            stats["execs"] += 1
        except env.Timeout:
            raise
        except BaseException as exc:
            stats["execs"] += 1
            if judged:
                fail("reader-leaks-" + type(exc).__name__, entry, label, str(exc)[:160])


# --------------------------------------------------------------------------- layer (b): grammar

def texts_for(tag):
    return TEXTS.get(tag, DEFAULT_TEXTS)


def leaf(tag, text):
    return "<%s>%s</%s>" % (tag, text, tag)


def grammar_docs(tier):
    """(label, xml text)"""
    out = []
    frame = '<odML version="1.1">%s</odML>'
    # one child of the root
    for t in DOC_TAGS:
        for x in texts_for(t):
            out.append(("root/%s" % t, frame % leaf(t, x)))
    # a section with <=2 children (incl. missing mandatory elements)
    sec_children = [(t, x) for t in SEC_TAGS for x in texts_for(t)]
    for a in [None] + sec_children:
        for b in [None] + sec_children:
            if a is None and b is not None:
                continue
            body = "".join(leaf(*c) for c in (a, b) if c is not None)
            out.append(("section/%s+%s" % (a[0] if a else "-", b[0] if b else "-"), frame % ("<section>%s</section>" % body)))
    # a valid section holding a property with <=2 children
    prop_children = [(t, x) for t in PROP_TAGS for x in texts_for(t)]
    for a in [None] + prop_children:
        for b in [None] + prop_children:
            if a is None and b is not None:
                continue
            body = "".join(leaf(*c) for c in (a, b) if c is not None)
            out.append(("property/%s+%s" % (a[0] if a else "-", b[0] if b else "-"),
                        frame % ("<section><name>s</name><type>t</type><property>%s</property></section>" % body)))
    # three typed slots together: value x dtype x cardinality
    for v in TEXTS["value"]:
        for t in TEXTS["type"]:
            for c in TEXTS["val_cardinality"]:
                body = "<name>p</name>" + leaf("value", v) + leaf("type", t) + leaf("val_cardinality", c)
                out.append(("property/value+type+card", frame % ("<section><name>s</name><type>t</type><property>%s</property></section>" % body)))
    # duplicate sibling names, top level and nested, sections and properties
    sec = "<section><name>%s</name><type>t</type>%s</section>"
    prop = "<property><name>%s</name><value>1</value></property>"
    out.append(("dup/top-sections", frame % (sec % ("a", "") + sec % ("a", ""))))
    out.append(("dup/nested-sections", frame % (sec % ("o", sec % ("a", "") + sec % ("a", "")))))
    out.append(("dup/properties", frame % (sec % ("o", prop % "p" + prop % "p"))))
    out.append(("dup/three-sections", frame % (sec % ("a", "") + sec % ("b", "") + sec % ("a", ""))))
    out.append(("dup/ids", frame % ("<section><name>a</name><type>t</type><id>%s</id></section><section><name>b</name><type>t</type><id>%s</id></section>" % (VID % 1, VID % 1))))
    out.append(("link+include", frame % (sec % ("a", "<link>/b</link><include>file:///x.xml#y</include>") + sec % ("b", ""))))
    out.append(("link-to-sibling", frame % (sec % ("a", "<link>/b</link>") + sec % ("b", prop % "p"))))
    out.append(("link-to-itself", frame % (sec % ("a", "<link>/a</link>"))))
    out.append(("link-to-parent", frame % (sec % ("a", sec % ("c", "<link>/a</link>")))))
    # XML attributes, processing instructions, comments, CDATA, entities, namespaces, declaration
    body = sec % ("a", prop % "p")
    specials = {
        "xml-attribute-on-section": frame % body.replace("<section>", '<section x="1">', 1),
        "xml-attribute-on-root": '<odML version="1.1" other="x">%s</odML>' % body,
        "pi-in-root": frame % ("<?pi x?>" + body),
        "pi-in-section": frame % body.replace("<name>a</name>", "<name>a</name><?pi x?>", 1),
        "pi-in-property": frame % body.replace("<value>1</value>", "<?pi x?><value>1</value>", 1),
        "pi-in-value": frame % body.replace("<value>1</value>", "<value>1<?pi x?></value>", 1),
        "comment-in-value": frame % body.replace("<value>1</value>", "<value>1<!-- c -->2</value>", 1),
        "comment-in-root": frame % ("<!-- c -->" + body),
        "cdata-value": frame % body.replace("<value>1</value>", "<value><![CDATA[<a&b>]]></value>", 1),
        "entity-amp": frame % body.replace("<value>1</value>", "<value>a&amp;b</value>", 1),
        "entity-undefined": frame % body.replace("<value>1</value>", "<value>&foo;</value>", 1),
        "doctype-entity": '<!DOCTYPE odML [<!ENTITY e "x">]>' + frame % body.replace("<value>1</value>", "<value>&e;</value>", 1),
        "namespace-prefix": '<odML version="1.1" xmlns:x="urn:x"><x:section><name>a</name><type>t</type></x:section></odML>',
        "default-namespace": '<odML version="1.1" xmlns="urn:x">%s</odML>' % body,
        "xml-declaration": '<?xml version="1.0" encoding="UTF-8"?>\n' + frame % body,
        "xml-declaration-truncated": '<?xml version="1.0" encoding="UTF-8"',
        "xml-declaration-unterminated": '<?xml version="1.0" encoding="UTF-8" ' + frame % body,
        "xml-declaration-only": '<?xml version="1.0" encoding="UTF-8"?>',
        "xml-declaration-twice": '<?xml version="1.0" encoding="UTF-8"?><?xml version="1.0" encoding="UTF-8"?>' + frame % body,
        "xml-declaration-unknown-encoding": '<?xml version="1.0" encoding="no-such-enc"?>' + frame % body,
        "xml-declaration-latin1": '<?xml version="1.0" encoding="ISO-8859-1"?>\n' + frame % body,
        "stylesheet-pi": '<?xml version="1.0"?>\n<?xml-stylesheet type="text/xsl" href="odml.xsl"?>\n' + frame % body,
        "text-in-root": frame % ("stray text" + body),
        "text-in-section": frame % body.replace("<name>a</name>", "stray<name>a</name>", 1),
        "nested-value-element": frame % body.replace("<value>1</value>", "<value>1<unit>mV</unit></value>", 1),
        "wrong-version": '<odML version="1">%s</odML>' % body,
        "wrong-version-2": '<odML version="2.0"></odML>',
        "no-version": "<odML>%s</odML>" % body,
        "version-attr-case": '<odML Version="1.1">%s</odML>' % body,
        "other-root": "<html><body/></html>",
        "root-case": '<odml version="1.1"></odml>',
        "empty-root": '<odML version="1.1"/>',
        "empty-string": "",
        "whitespace": "   \n",
        "bom": "﻿" + frame % body,
        "deep-nesting": frame % ("".join("<section><name>n%d</name><type>t</type>" % i for i in range(60)) + "</section>" * 60),
    }
    for k, v in specials.items():
        out.append(("special/" + k, v))
    return out


# --------------------------------------------------------------------------- layer (c): mutations

def seeds():
    s1 = ('<odML version="1.1"><id>%s</id><author>me</author>'
          '<section><id>%s</id><name>s1</name><type>t</type>'
          '<property><id>%s</id><name>p1</name><value>[1,2]</value><type>int</type><unit>mV</unit></property>'
          '<section><id>%s</id><name>s11</name><type>t</type>'
          '<property><id>%s</id><name>q</name><value>x</value></property></section></section>'
          '<section><id>%s</id><name>s2</name><type>u</type></section></odML>') % tuple(VID % i for i in range(1, 7))
    s2 = ('<odML version="1.1"><id>%s</id><section><id>%s</id><name>a</name><type>t</type>'
          '<property><id>%s</id><name>p</name><value>2020-01-02</value><type>date</type></property></section></odML>'
          ) % tuple(VID % i for i in range(11, 14))
    s3 = ('<odML version="1.1"><id>%s</id><date>2020-01-02</date><section><id>%s</id><name>a</name><type>t</type>'
          '<sec_cardinality>(1,2)</sec_cardinality><definition>d</definition>'
          '<section><id>%s</id><name>b</name><type>t</type><link>/a/c</link></section>'
          '<section><id>%s</id><name>c</name><type>t</type>'
          '<property><id>%s</id><name>t</name><value>[(1;2),(3;4)]</value><type>2-tuple</type><val_cardinality>(1,3)</val_cardinality>'
          '</property></section></section></odML>') % tuple(VID % i for i in range(21, 26))
    return [("seed1", s1), ("seed2", s2), ("seed3", s3)]


MUT_TEXTS = ["", "x", "[", "(1,2)", "2020-01-02", "not-an-id", "\n  ", "1"]
RETAGS = ["section", "property", "value", "name", "type", "id", "foo", "odML", "val_cardinality", "link"]


def mutations(xml_text):
    """All single mutations of every element below the root: (label, mutated text, ids inside the mutated node)."""
    import lxml.etree as ET
    root = ET.fromstring(xml_text.encode())
    nodes = [n for n in root.iter() if n is not root]
    out = []

    def ids_under(n):
        """ids the mutation of node n may legitimately remove or replace.
        n is an object element (section / property): the object and everything below it, plus the own id of the
        object that holds it (n may have become one of its attributes).
        n is an attribute element: only the own id of the object it belongs to - the lenient reader replaces an
        object it cannot create by a default one and keeps its children."""
        found = set()
        if n.tag in ("section", "property"):
            found |= set(i.text for i in n.iter("id"))
            holder = n.getparent()
        else:
            holder = n
        while holder is not None and holder.tag not in ("section", "property", "odML"):
            holder = holder.getparent()
        if holder is not None and holder.find("id") is not None:
            found.add(holder.find("id").text)
        if n.tag not in ("section", "property") and len(n):
            found |= set(i.text for i in n.iter("id"))
        return found

    for idx in range(len(nodes)):
        def fresh():
            r = ET.fromstring(xml_text.encode())
            ns = [n for n in r.iter() if n is not r]
            return r, ns
        base_ids = ids_under(nodes[idx])
        tag = nodes[idx].tag
        # delete
        r, ns = fresh()
        ns[idx].getparent().remove(ns[idx])
        out.append(("delete:%s" % tag, ET.tostring(r).decode(), base_ids))
        # duplicate
        r, ns = fresh()
        ns[idx].addnext(copy.deepcopy(ns[idx]))
        out.append(("duplicate:%s" % tag, ET.tostring(r).decode(), base_ids))
        # re-tag
        for t in RETAGS:
            if t == tag:
                continue
            r, ns = fresh()
            ns[idx].tag = t
            out.append(("retag:%s->%s" % (tag, t), ET.tostring(r).decode(), base_ids))
        # swap with next sibling
        r, ns = fresh()
        nxt = ns[idx].getnext()
        if nxt is not None:
            nxt.addnext(ns[idx])
            out.append(("swap:%s" % tag, ET.tostring(r).decode(), base_ids))
        # move under every other node
        for j in range(len(nodes)):
            if j == idx:
                continue
            r, ns = fresh()
            if ns[idx] in list(ns[j].iterancestors()) or ns[j] is ns[idx]:
                continue
            tgt_ids = ids_under(nodes[j])
            ns[j].append(ns[idx])
            out.append(("move:%s->%s" % (tag, nodes[j].tag), ET.tostring(r).decode(), base_ids | tgt_ids))
        # clear / replace text (leaf elements)
        if len(nodes[idx]) == 0:
            for x in MUT_TEXTS:
                r, ns = fresh()
                ns[idx].text = x
                out.append(("text:%s=%r" % (tag, x), ET.tostring(r).decode(), base_ids))
        # XML attribute
        r, ns = fresh()
        ns[idx].set("attr", "1")
        out.append(("attribute:%s" % tag, ET.tostring(r).decode(), base_ids))
    return out


# --------------------------------------------------------------------------- layer (d): dictionaries

def seed_dict():
    return {"odml-version": "1.1", "Document": {
        "id": VID % 31, "author": "me", "date": "2020-01-02",
        "sections": [{"id": VID % 32, "name": "s1", "type": "t", "sec_cardinality": [1, 2],
                      "properties": [{"id": VID % 33, "name": "p1", "value": [1, 2], "type": "int", "unit": "mV",
                                      "val_cardinality": [1, 3]},
                                     {"id": VID % 34, "name": "p2", "value": ["x"]}],
                      "sections": [{"id": VID % 35, "name": "s11", "type": "t", "properties": [], "sections": []}]},
                     {"id": VID % 36, "name": "s2", "type": "u"}]}}


DICT_VALUES = ["", "x", 5, None, [], [1, "x"], {"k": 1}, True, "not-an-id", "2020-13-45", [2, 1], "(1,2)", 1.5]


PLAIN_ATTRS = ("author", "date", "version", "type", "unit", "definition", "reference", "sec_cardinality", "val_cardinality",
               "prop_cardinality", "uncertainty", "value_origin")


def dict_mutations():
    """(label, data, judged, ids inside the mutated object)"""
    base = seed_dict()
    out = [("base", base, True, set())]

    def paths(d, prefix=()):
        res = []
        if isinstance(d, dict):
            for k, v in d.items():
                res.append(prefix + (k,))
                res.extend(paths(v, prefix + (k,)))
        elif isinstance(d, list):
            for i, v in enumerate(d):
                if isinstance(v, (dict, list)):
                    res.append(prefix + (i,))
                    res.extend(paths(v, prefix + (i,)))
        return res

    def get(d, p):
        for k in p:
            d = d[k]
        return d

    def ids_of(d, p):
        # the ids of the innermost object (dict with 'name' or the Document) containing the path, and everything below
        best = ()
        for n in range(len(p) + 1):
            sub = get(d, p[:n])
            if isinstance(sub, dict) and ("name" in sub or "sections" in sub and "id" in sub):
                best = p[:n]
        found = set()

        def rec(x):
            if isinstance(x, dict):
                if isinstance(x.get("id"), str):
                    found.add(x["id"])
                for v in x.values():
                    rec(v)
            elif isinstance(x, list):
                for v in x:
                    rec(v)
        rec(get(d, best))
        return found

    container_keys = {"Document", "sections", "properties"}
    for p in paths(base):
        key = p[-1]
        cur = get(base, p)
        ids = ids_of(base, p[:-1])
        if isinstance(key, str) and key in PLAIN_ATTRS:
            # a problem with one plain attribute of an object: the object itself, its id and everything below it
            # are valid parts and stay
            ids = set()
        # delete the key
        if isinstance(key, str):
            d = copy.deepcopy(base)
            del get(d, p[:-1])[key]
            out.append(("delete:%s" % key, d, True, ids))
            # rename the key
            for nk in ("foo", key.upper(), "value" if key != "value" else "values"):
                d = copy.deepcopy(base)
                tgt = get(d, p[:-1])
                tgt[nk] = tgt.pop(key)
                # renamed to 'value' it replaces the values of a Property, which may then not be creatable
                out.append(("rename:%s->%s" % (key, "upper" if nk == key.upper() else nk), d, True,
                            ids_of(base, p[:-1]) if nk == "value" else ids))
        # replace the value
        for v in DICT_VALUES:
            d = copy.deepcopy(base)
            get(d, p[:-1])[key] = v
            is_container = (isinstance(key, str) and key in container_keys) or isinstance(key, int) or key == "value"
            wrong_container = is_container and key != "value" and not (
                (key == "Document" and isinstance(v, dict)) or
                (key in ("sections", "properties") and isinstance(v, list) and all(isinstance(x, dict) for x in v)) or
                (isinstance(key, int) and isinstance(v, dict)))
            out.append(("set:%s=%s" % (key if isinstance(key, str) else "[i]", type(v).__name__ + ":" + repr(v)[:12]), d,
                        not wrong_container, ids))
        # duplicate a list element (duplicate names / ids)
        if isinstance(key, int):
            d = copy.deepcopy(base)
            lst = get(d, p[:-1])
            lst.append(copy.deepcopy(lst[key]))
            out.append(("duplicate-element", d, True, ids))
    out.append(("root-list", [base], False, set()))
    out.append(("root-none", None, False, set()))
    out.append(("no-version", {"Document": base["Document"]}, True, set()))
    out.append(("version-1", {"Document": base["Document"], "odml-version": "1"}, True, set()))
    out.append(("version-number", {"Document": base["Document"], "odml-version": 1.1}, True, set()))
    out.append(("no-document", {"odml-version": "1.1"}, True, set()))
    out.append(("extra-root-key", dict(base, extra=1), True, set()))
    return out


# --------------------------------------------------------------------------- cases

STRING_LENGTH = {"quick": 6, "thorough": 8}


def gen_cases(tier):
    L = STRING_LENGTH[tier]
    cases = []
    # (a) strings: chunked by their first two (from length 7 on: three) letters
    for n in range(0, 3):
        cases.append({"layer": "a", "length": n, "prefix": ""})
    for n in range(3, L + 1):
        for pre in itertools.product(ALPHABET, repeat=2 if n < 7 else 3):
            cases.append({"layer": "a", "length": n, "prefix": "".join(pre)})
    g = grammar_docs(tier)
    for i in range(0, len(g), 150):
        cases.append({"layer": "b", "slice": [i, i + 150]})
    for name, text in seeds():
        n = len(mutations(text))
        for i in range(0, n, 150):
            cases.append({"layer": "c", "seed": name, "slice": [i, i + 150], "pairs": False})
    if tier == "thorough":
        for name, text in seeds():
            n = len(mutations(text))
            for i in range(0, n, 4):
                cases.append({"layer": "c", "seed": name, "slice": [i, i + 4], "pairs": True})
    d = dict_mutations()
    for i in range(0, len(d), 100):
        cases.append({"layer": "d", "slice": [i, i + 100]})
    return cases


def run_case(case):
    scratch = env.fresh_dir("c16")
    try:
        return _run(case, scratch)
    finally:
        env.drop_dir(scratch)


def _run(case, scratch):
    fails = []
    seen = set()
    stats = {"execs": 0, "wellformed": 0, "either": 0, "leaks": 0, "hist": {}}

    def fail(clause, entry, label, observed):
        key = (clause, entry, label.split("=")[0] if case["layer"] in ("c", "d") else label.split("/")[0])
        if key in seen:
            return
        seen.add(key)
        fails.append(report.failure("readers", {"clause": clause, "entry": entry, "layer": case["layer"],
                                                "input": key[2]},
                                    dict(case, label=label), observed=observed, explain=label))
    n_inputs = 0
    if case["layer"] == "a":
        n = case["length"]
        rest = n - len(case["prefix"])
        frame = '<odML version="1.1">%s</odML>'
        for tail in itertools.product(ALPHABET, repeat=max(rest, 0)):
            s = case["prefix"] + "".join(tail)
            if len(s) != n:
                continue
            n_inputs += 1
            judge_xml(s, False, scratch, "string/%r" % s, fail, stats)
            judge_xml(frame % s, False, scratch, "framed/%r" % s, fail, stats)
            if n <= 3:
                judge_xml(s, True, scratch, "file/%r" % s, fail, stats)
    elif case["layer"] == "b":
        for label, text in grammar_docs(case.get("tier", "quick"))[case["slice"][0]:case["slice"][1]]:
            n_inputs += 1
            judge_xml(text, False, scratch, label, fail, stats)
            judge_xml(text, True, scratch, label, fail, stats)
    elif case["layer"] == "c":
        import lxml.etree as ET
        text = dict(seeds())[case["seed"]]
        all_ids = set(i.text for i in ET.fromstring(text.encode()).iter("id"))
        muts = mutations(text)
        for label, mtext, mids in muts[case["slice"][0]:case["slice"][1]]:
            if not case.get("pairs"):
                n_inputs += 1
                judge_xml(mtext, False, scratch, label, fail, stats, seed_ids=all_ids, mutated_ids=mids)
                judge_xml(mtext, True, scratch, label, fail, stats, seed_ids=all_ids, mutated_ids=mids)
            else:
                try:
                    second = mutations(mtext)
                except Exception:
                    continue
                for l2, t2, m2 in second[::(7 if case["seed"] != "seed2" else 2)]:
                    n_inputs += 1
                    judge_xml(t2, False, scratch, label + "+" + l2, fail, stats)
    elif case["layer"] == "d":
        import yaml
        for label, data, judged, mids in dict_mutations()[case["slice"][0]:case["slice"][1]]:
            n_inputs += 1
            all_ids = set(VID % i for i in range(31, 37))
            judge_dict(data, label, fail, stats, judged=judged, seed_ids=all_ids if judged else None, mutated_ids=mids)
            try:
                jt = json.dumps(data)
                yt = yaml.safe_dump(data)
            except Exception:
                continue
            judge_text("JSON", jt, label, fail, stats, scratch, judged=judged)
            judge_text("YAML", yt, label, fail, stats, scratch, judged=judged)
    outs = []
    for k, n in stats["hist"].items():
        outs += [k] * n
    return {"failures": fails, "outcomes": outs + ["layer-%s" % case["layer"]], "nontrivial": stats["wellformed"],
            "execs": max(stats["execs"], 1), "states": n_inputs}


def check(tier):
    run = report.Run(PROP, tier, LEVEL, RULE, assumptions=[
        "dictionaries with a wrong *container* type (sections: 5, Document: None, a list at the root) are executed and counted "
        "but not judged: the statement covers input 'shaped like an odML dictionary'",
        "JSON / YAML text that is not decodable at all is outside the statement (ODMLReader returns None for it)",
        "a mutation may remove the object it touches (and, for a move, the object it moves into): those ids are not demanded back",
        "includes use file: URLs that do not exist; no network",
    ])
    cases = gen_cases(tier)
    for c in cases:
        c["tier"] = tier
    run.bounds = {"string_length": STRING_LENGTH[tier], "alphabet": ALPHABET, "grammar_documents": len(grammar_docs(tier)),
                  "mutations": {n: len(mutations(t)) for n, t in seeds()}, "dictionary_inputs": len(dict_mutations())}
    run.layer("cases", chunks=len(cases))
    par.run_cases(run, "checks.c16", cases, nchunks=par.JOBS * 16)
    return run.finish(reproduce=lambda f: replay(f))


def replay(rec):
    env.reset_globals(env.SEED)
    case = dict(rec["case"])
    case.pop("label", None)
    want = rec.get("desc")
    return [f for f in run_case(case)["failures"] if want is None or f["desc"] == want] or []
