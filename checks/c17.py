"""C17 - batch tools never touch their inputs and isolate bad files.

Input + fault engine: every sequence of file kinds (valid 1.0 / 1.1 in XML, JSON, YAML; empty,
plain text, malformed XML, XML of another vocabulary - each bad kind under every extension the
tools look for) x placement (top directory / sub-directory) x -r x implicit / explicit output x
{odmlconvert, odmltordf}; and FormatConverter.convert_dir x every target format except trix.
Oracle: bytes and listing of the input tree unchanged, everything created lies in a directory
that did not exist before, the call returns, every convertible file has an output with the
content of its source, every unconvertible file is reported and has none."""
import hashlib
import io
import itertools
import json
import os
import sys

from gen import docs, v10, xmltext
from mc import env, par, report, snapshot
from ref import tree, v10_to_v11 as ref10
from checks import rt

PROP = "C17"
LEVEL = "fault_enumeration"
RULE = ("all sequences of <=2 file kinds out of 24 (6 valid kinds + 2 extension variants, 4 bad kinds x 4 extensions) and all "
        "sequences of 3 out of 10 core kinds x placements x -r x implicit/explicit output x {odmlconvert, odmltordf}; "
        "FormatConverter.convert_dir over sequences of <=2 kinds x every target format but trix; non-trivial = a run with at "
        "least one convertible and one unconvertible file, or any run whose outputs were loaded and compared")
WATCHDOG_S = 120

VALID = ["v10-xml", "v10-json", "v10-yaml", "v11-xml", "v11-json", "v11-yaml"]
BAD = ["empty", "text", "malformed", "other-vocabulary"]
EXTS = {"xml": ".xml", "odml": ".odml", "json": ".json", "yaml": ".yaml"}


def kinds_full():
    out = [(k, EXTS[k.split("-")[1]]) for k in VALID] + [("v10-xml", ".odml"), ("v11-xml", ".odml")]
    for b in BAD:
        for e in EXTS.values():
            out.append((b, e))
    return out


def kinds_core():
    return [(k, EXTS[k.split("-")[1]]) for k in VALID] + [("empty", ".xml"), ("text", ".json"), ("malformed", ".xml"),
                                                          ("other-vocabulary", ".yaml")]


# --------------------------------------------------------------------------- file contents

def v10_doc(base):
    d = v10.baseline()
    d["sections"][0]["name"] = "sec_" + base
    return d


def v11_spec(base):
    spec = docs.doc_of([rt.S("sec_" + base, "t1", definition="first",
                             props=[rt.P("p1", [1, 2], "int", unit="mV"), rt.P("p2", ["x", "y"], "string")],
                             secs=[rt.S("s11", "t2", props=[rt.P("q", ["z"], "string")])]),
                        rt.S("s2", "t1")], author="me", version="0.9")
    return rt.with_ids(spec)


def content_of(kind, ext, base):
    """(text, source description for the oracle)"""
    if kind == "empty":
        return ""
    if kind == "text":
        return "just some notes, %s\nnothing to see here\n" % base
    if kind == "malformed":
        return '<odML version="1"><section><name>broken %s</name>' % base
    if kind == "other-vocabulary":
        return '<?xml version="1.0"?>\n<html><body><p>%s</p></body></html>\n' % base
    if kind.startswith("v10"):
        d = v10_doc(base)
        return {"xml": v10.to_xml, "json": v10.to_json, "yaml": v10.to_yaml}[kind.split("-")[1]](d)
    spec = v11_spec(base)
    if kind == "v11-xml":
        return xmltext.doc_xml(spec)
    from checks import c02
    import yaml
    fd = c02.foreign_dict(snapshot.snap(docs.build(spec)))
    return json.dumps(fd, indent=1) if kind == "v11-json" else yaml.safe_dump(fd, default_flow_style=False)


def expected_doc(kind, base):
    """The odml Document an output for this source has to carry."""
    import odml
    if kind.startswith("v11"):
        return docs.build(v11_spec(base))
    exp, _ = ref10.expect_document(v10_doc(base))
    doc = odml.Document(**exp["attrs"])

    def add(esec, parent):
        sec = odml.Section(name=esec["name"], type=esec["type"], parent=parent, oid=esec["id"], **esec["attrs"])
        for e in esec["properties"]:
            kw = dict(e["lifted"])
            kw.update(e["attrs"])
            odml.Property(name=e["name"], values=e["values"] or None, dtype=e["dtype"], parent=sec, oid=e["id"], **kw)
        for c in esec["sections"]:
            add(c, sec)
    for s in exp["sections"]:
        add(s, doc)
    return doc


def content(doc, rdf_only=False):
    """Order-free description of what a document carries (siblings keyed by name)."""
    def num(x):
        try:
            return float(x)
        except (TypeError, ValueError):
            return x

    def prop(p):
        d = {"dtype": p.dtype, "values": [repr(v) for v in p.values], "unit": p.unit, "uncertainty": num(p.uncertainty),
             "definition": p.definition, "reference": p.reference, "value_origin": p.value_origin}
        return d

    def sec(s):
        secs, props = tree.children(s)
        return {"type": s.type, "definition": s.definition, "reference": s.reference,
                "properties": {p.name: prop(p) for p in props}, "sections": {c.name: sec(c) for c in secs}}
    return {"author": doc.author, "version": None if doc.version is None else str(doc.version),
            "sections": {s.name: sec(s) for s in tree.children(doc)[0]}}


def is_convertible(kind, tool, target=None):
    if tool == "odmlconvert":
        return kind.startswith("v10")
    if tool == "odmltordf":
        return kind.startswith("v10") or kind.startswith("v11")
    return False


# --------------------------------------------------------------------------- cases

def gen_cases(tier):
    cases = []
    full, core = kinds_full(), kinds_core()
    for tool in ("odmlconvert", "odmltordf"):
        for k in full:
            for place in ("t", "s"):
                for r in (False, True):
                    for out in ("implicit", "explicit"):
                        cases.append({"tool": tool, "files": [list(k)], "place": place, "r": r, "out": out})
        for a, b in itertools.product(full, repeat=2):
            places = ("tt", "ts", "st", "ss")
            for place in places:
                for r in ((False, True) if "s" in place else (True,)):
                    cases.append({"tool": tool, "files": [list(a), list(b)], "place": place, "r": r,
                                  "out": "implicit" if (full.index(a) + full.index(b)) % 2 else "explicit"})
        n3 = 3 if tier == "quick" else 4
        for seq in itertools.product(core if tier == "quick" else full, repeat=3):
            cases.append({"tool": tool, "files": [list(k) for k in seq], "place": "tst", "r": True, "out": "implicit"})
            if tier == "thorough" and all(k in core for k in seq):
                cases.append({"tool": tool, "files": [list(k) for k in seq], "place": "sst", "r": False, "out": "explicit"})
        if tier == "thorough":
            for seq in itertools.product(core[:6] + core[6:8], repeat=4):
                if sum(1 for k in seq if k[0] in BAD) != 1:
                    continue
                cases.append({"tool": tool, "files": [list(k) for k in seq], "place": "ttss", "r": True, "out": "explicit"})
    # FormatConverter
    targets = ["v1_1", "odml", "xml", "pretty-xml", "n3", "turtle", "ttl", "ntriples", "nt", "nt11", "trig", "json-ld"]
    for target in targets:
        for n in (1, 2):
            for seq in itertools.product(core, repeat=n):
                for place in (("t", "s") if n == 1 else ("tt", "ts")):
                    for out in ("implicit", "explicit"):
                        if n == 2 and out == "explicit" and tier == "quick":
                            continue
                        cases.append({"tool": "format_converter", "target": target, "files": [list(k) for k in seq],
                                      "place": place, "r": "s" in place, "out": out})
                        if "s" in place:
                            # recursion off with a filled sub-directory: what lies there is out of scope
                            cases.append({"tool": "format_converter", "target": target, "files": [list(k) for k in seq],
                                          "place": place, "r": False, "out": out})
                if n == 1:
                    # an explicit output directory inside the input directory, recursion off
                    for seq in itertools.product(core, repeat=n):
                        cases.append({"tool": "format_converter", "target": target, "files": [list(k) for k in seq],
                                      "place": "t", "r": False, "out": "explicit-inside-input"})
    # spellings of the search / input directory (the default is an absolute path without anything special in it)
    for form in DIRFORMS:
        for tool in ("odmlconvert", "odmltordf"):
            for k in core:
                for place in ("t", "s"):
                    for r in ((False, True) if place == "t" else (True,)):
                        for out in ("implicit", "explicit"):
                            cases.append({"tool": tool, "files": [list(k)], "place": place, "r": r, "out": out, "dirform": form})
            for a, b in itertools.product(core[:6] + core[6:7], repeat=2):
                cases.append({"tool": tool, "files": [list(a), list(b)], "place": "ts", "r": True,
                              "out": "implicit" if (core.index(a) + core.index(b)) % 2 else "explicit", "dirform": form})
        for target in ("v1_1", "odml", "turtle"):
            right = ("v10-xml", ".xml") if target == "v1_1" else ("v11-xml", ".xml")
            for seq in ([right], [right, right], [right, ("text", ".json")]):
                for place in (("t", "s") if len(seq) == 1 else ("ts",)):
                    for r in ((False, True) if place == "t" else (True,)):
                        for out in ("implicit", "explicit"):
                            cases.append({"tool": "format_converter", "target": target, "files": [list(k) for k in seq],
                                          "place": place, "r": r, "out": out, "dirform": form})
    # base names that resemble the names the tools derive for their outputs (still unique base names)
    for tool in ("odmlconvert", "odmltordf"):
        for names in NAME_SETS:
            for a, b in itertools.product([k for k in core if k[0] in VALID], repeat=2):
                for place in ("tt", "ts"):
                    cases.append({"tool": tool, "files": [list(a), list(b)], "place": place, "r": True, "out": "implicit",
                                  "names": list(names)})
    return cases


DIRFORMS = ["rel", "rel-dotdot", "trailing-slash", "hidden-ancestor", "name-plus-paren", "name-bracket-dollar", "name-blank"]
DIRNAMES = {"name-plus-paren": "in+put(1)", "name-bracket-dollar": "in[1]$", "name-blank": "in put"}
NAME_SETS = [("a", "a_conv"), ("a_conv", "a"), ("a", "a.b"), ("conv", "a_conv_conv")]


def tree_state(root):
    out = {}
    for d, dirs, files in os.walk(root):
        for x in dirs:
            out[os.path.relpath(os.path.join(d, x), root) + "/"] = None
        for f in files:
            p = os.path.join(d, f)
            with open(p, "rb") as fh:
                out[os.path.relpath(p, root)] = hashlib.sha256(fh.read()).hexdigest()
    return out


def run_case(case):
    scratch = env.fresh_dir("c17")
    cwd = os.getcwd()
    try:
        return _run(case, scratch)
    finally:
        os.chdir(cwd)
        env.drop_dir(scratch)


def _run(case, scratch):
    import rdflib
    from odml.tools.xmlparser import XMLReader
    from odml.tools.rdf_converter import RDFReader
    fails = []
    tool = case["tool"]
    kinds = sorted(set(k for k, _ in case["files"]))

    def fail(clause, observed=None, kind=None, ext=None):
        fails.append(report.failure("batch", {"clause": clause, "tool": tool, "target": case.get("target"), "kind": kind,
                                              "ext": ext, "n_files": len(case["files"]), "recursive": bool(case["r"]),
                                              "out": case["out"], "dirform": case.get("dirform", "abs"),
                                              "names": "look-alike" if case.get("names") else "plain"}, case, observed=observed,
                                    explain="files %r placement %s" % (case["files"], case["place"])))
    form = case.get("dirform", "abs")
    root = os.path.join(scratch, ".hidden", "root") if form == "hidden-ancestor" else os.path.join(scratch, "root")
    in_name = DIRNAMES.get(form, "input")
    indir = os.path.join(root, in_name)
    work = os.path.join(root, "work")
    outx = os.path.join(root, "explicit_out")
    inside = case["out"] == "explicit-inside-input"
    if inside:
        outx = os.path.join(indir, "out")
    os.makedirs(os.path.join(indir, "sub"))
    os.makedirs(work)
    os.makedirs(outx)
    with open(os.path.join(outx, "already_here.txt"), "w") as fh:
        fh.write("do not touch\n")
    files = []
    for i, ((kind, ext), pl) in enumerate(zip(case["files"], case["place"])):
        base = case["names"][i] if case.get("names") else "f%d" % (i + 1)
        rel = os.path.join("sub" if pl == "s" else "", base + ext)
        with open(os.path.join(indir, rel), "w", encoding="utf-8") as fh:
            fh.write(content_of(kind, ext, base))
        files.append({"kind": kind, "ext": ext, "base": base, "rel": rel, "seen": pl == "t" or bool(case["r"])})
    before = tree_state(root)
    cwd_rel = "work"
    os.chdir(work)
    indir_abs = indir
    if form == "rel":
        os.chdir(root)
        cwd_rel = ""
        indir = in_name
    elif form == "rel-dotdot":
        indir = os.path.join("..", in_name)
    elif form == "trailing-slash":
        indir = indir + os.sep
    buf = io.StringIO()
    old_out = sys.stdout
    sys.stdout = buf
    raised = None
    try:
        if tool == "odmlconvert":
            from odml.scripts import odml_convert
            args = (["-r"] if case["r"] else []) + (["-o", outx] if case["out"] == "explicit" else []) + [indir]
            odml_convert.main(args)
        elif tool == "odmltordf":
            from odml.scripts import odml_to_rdf
            args = (["-r"] if case["r"] else []) + (["-o", outx] if case["out"] == "explicit" else []) + [indir]
            odml_to_rdf.main(args)
        else:
            from odml.tools.converters.format_converter import FormatConverter
            FormatConverter.convert_dir(indir, outx if case["out"].startswith("explicit") else None, bool(case["r"]),
                                        case["target"])
    except env.Timeout:
        raise
    except BaseException as exc:
        raised = exc
    finally:
        sys.stdout = old_out
    os.chdir(scratch)
    log = buf.getvalue()
    after = tree_state(root)
    # 1. inputs untouched
    for k, h in before.items():
        if k.startswith(in_name + os.sep) and after.get(k, "<gone>") != h:
            fail("input-file-changed-or-removed", k)
    new_in_input = sorted(k for k in after if k.startswith(in_name + os.sep) and k not in before and
                          not (inside and k.startswith(os.path.join(in_name, "out") + os.sep)))
    if new_in_input:
        fail("something-written-into-the-input-directory", new_in_input[:3])
    marker = os.path.relpath(os.path.join(outx, "already_here.txt"), root)
    if after.get(marker) != before[marker]:
        fail("existing-file-in-the-output-directory-changed", None)
    # 2. everything created lies in a new directory at the right place
    created = sorted(k for k in after if k not in before)
    where = "explicit_out" if case["out"] == "explicit" else (cwd_rel if tool != "format_converter" else "")
    new_dirs = [k for k in created if k.endswith("/")]
    for k in created:
        if k.endswith("/"):
            continue
        inside_new = any(k.startswith(d) for d in new_dirs)
        if tool == "format_converter" and inside:
            ok = k.startswith(os.path.join(in_name, "out") + os.sep) and os.sep not in k[len(os.path.join(in_name, "out")) + 1:]
        elif tool == "format_converter" and case["out"] == "explicit":
            ok = k.startswith("explicit_out" + os.sep)
        elif tool == "format_converter":
            ok = inside_new and k.startswith(in_name + "_" + case["target"] + os.sep)
        else:
            ok = inside_new and (k.startswith(where + os.sep) if where else not k.startswith(in_name + os.sep))
        if not ok:
            fail("file-created-outside-a-new-output-location", k)
            break
    # 3. the two command line tools never stop
    if raised is not None and tool != "format_converter":
        fail("run-stopped-by-" + type(raised).__name__, str(raised)[:200])
    outputs = [k for k in created if not k.endswith("/")]
    execs = 1
    compared = 0
    if tool in ("odmlconvert", "odmltordf"):
        for f in files:
            if not f["seen"]:
                mine = [o for o in outputs if os.path.basename(o).startswith(f["base"] + ".") or
                        os.path.basename(o).startswith(f["base"] + "_")]
                if mine:
                    fail("file-outside-the-search-scope-was-converted", mine[:2], f["kind"], f["ext"])
                continue
            conv = is_convertible(f["kind"], tool)
            if tool == "odmlconvert":
                mine = [o for o in outputs if os.path.basename(o) == f["base"] + "_conv.xml"]
            else:
                mine = [o for o in outputs if os.path.basename(o) in (f["base"] + ".rdf", f["base"] + "_conv.rdf")]
            if conv and not mine:
                fail("convertible-file-has-no-output", {"log": [l for l in log.splitlines() if f["base"] in l][:3]},
                     f["kind"], f["ext"])
                continue
            if not conv:
                if f["kind"] in BAD:
                    if mine:
                        fail("unconvertible-file-has-an-output", mine[:2], f["kind"], f["ext"])
                    words = ("error", "warning", "cannot", "could not", "invalid", "fail", "skip", "unable", "not ")
                    if not any(f["base"] + f["ext"] in l and any(w in l.lower() for w in words)
                               and "recent version" not in l for l in log.splitlines()):
                        fail("unconvertible-file-not-reported", [l for l in log.splitlines() if f["base"] in l][:3],
                             f["kind"], f["ext"])
                continue
            # content of the output
            want = content(expected_doc(f["kind"], f["base"]))
            problems = []
            for o in sorted(mine):          # (with look-alike base names more than one output can be the file's)
                path = os.path.join(root, o)
                try:
                    if tool == "odmlconvert":
                        got_doc = XMLReader(show_warnings=False).from_file(path)
                    else:
                        got = RDFReader().from_file(path, "xml")
                        if len(got) != 1:
                            problems.append(("output-does-not-hold-exactly-one-document", len(got)))
                            continue
                        got_doc = got[0]
                    execs += 1
                except Exception as exc:
                    problems.append(("output-does-not-load", "%s: %s" % (type(exc).__name__, str(exc)[:160])))
                    continue
                got = content(got_doc)
                compared += 1
                if got != want:
                    problems.append(("output-content-differs-from-its-source", snapshot.short(snapshot.diff(want, got))))
                else:
                    problems = []
                    break
            if problems:
                fail(problems[0][0], problems[0][1], f["kind"], f["ext"])
    else:
        for f in files:
            if not f["seen"]:
                mine = [o for o in outputs if os.path.basename(o).startswith(f["base"] + ".")]
                if mine:
                    fail("file-outside-the-search-scope-was-converted", mine[:2], f["kind"], f["ext"])
        target = case["target"]
        right_kind = {"v1_1": "v10-xml", "odml": "v11-xml"}.get(target, "v11-xml")
        all_right = all(f["kind"] == right_kind for f in files if f["seen"])
        if all_right and raised is not None:
            fail("format-converter-raises-on-convertible-input", "%s: %s" % (type(raised).__name__, str(raised)[:200]),
                 right_kind)

        def load_output(path):
            if target in ("v1_1", "odml"):
                return XMLReader(show_warnings=False).from_file(path)
            # "parses as RDF": plain rdflib (a Dataset, so that trig works too), then the triples are
            # handed to the library's importer
            fmt = {"ttl": "turtle", "ntriples": "nt", "nt11": "nt", "pretty-xml": "xml"}.get(target, target)
            ds = rdflib.Dataset()
            ds.parse(path, format=fmt)
            g = rdflib.Graph()
            for s_, p_, o_, _c in ds.quads((None, None, None, None)):
                g.add((s_, p_, o_))
            rd = RDFReader()
            rd.graph = g
            got = rd.to_odml()
            if len(got) != 1:
                raise LookupError(len(got))
            return got[0]

        for f in files:
            if not f["seen"]:
                continue
            mine = [o for o in outputs if os.path.basename(o).startswith(f["base"] + ".")]
            if all_right and raised is None and len(mine) != 1:
                fail("convertible-file-has-no-output", mine, f["kind"], f["ext"])
                continue
            # every output that exists - also that of a file the target format was not made for, and in a run that
            # stopped later - has to load and to carry the content of its source
            for o in mine:
                if f["kind"] in BAD:
                    fail("unconvertible-file-has-an-output", o, f["kind"], f["ext"])
                    continue
                want = content(expected_doc(f["kind"], f["base"]))
                try:
                    got_doc = load_output(os.path.join(root, o))
                    execs += 1
                except LookupError as exc:
                    fail("output-does-not-hold-exactly-one-document", str(exc), f["kind"], f["ext"])
                    continue
                except Exception as exc:
                    fail("output-does-not-load", "%s: %s" % (type(exc).__name__, str(exc)[:160]), f["kind"], f["ext"])
                    continue
                compared += 1
                got = content(got_doc)
                if got != want:
                    fail("output-content-differs-from-its-source", snapshot.short(snapshot.diff(want, got)), f["kind"], f["ext"])
    mixed = any(f["kind"] in BAD for f in files) and any(f["kind"] in VALID for f in files)
    return {"failures": fails, "outcomes": ["%s:%s" % (tool, "raised" if raised is not None else "returned")],
            "nontrivial": int(mixed or compared > 0), "execs": execs}


def check(tier):
    run = report.Run(PROP, tier, LEVEL, RULE, assumptions=[
        "for FormatConverter only 'inputs untouched' and 'writes only into the output location' are judged when a file of "
        "another kind than the target expects is present (it is allowed to raise); content is compared when every file seen "
        "is of the expected kind",
        "odmlconvert skips current-version files (no output expected); odmltordf exports them",
        "the implicit output location of the command line tools is a new directory in the current working directory, which the "
        "harness sets to an empty scratch directory",
        "content is compared order-free (siblings keyed by name) on the attributes RDF carries",
    ])
    cases = gen_cases(tier)
    by = {}
    for c in cases:
        by[c["tool"]] = by.get(c["tool"], 0) + 1
    for k, v in by.items():
        run.layer(k, runs=v)
    run.bounds = {"sequence_length_full_kinds": 2, "sequence_length_core_kinds": 3 if tier == "quick" else 4,
                  "kinds_full": len(kinds_full()), "kinds_core": len(kinds_core())}
    par.run_cases(run, "checks.c17", cases, nchunks=par.JOBS * 16)
    return run.finish(reproduce=lambda f: replay(f))


def replay(rec):
    env.reset_globals(env.SEED)
    return run_case(rec["case"])["failures"]
