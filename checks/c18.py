"""C18 - background loading of terminologies / templates is transparent in every schedule.

Schedule engine (mc/sched.py): the real odml.terminology / odml.templates code runs on real
threads under a baton-passing scheduler; every interleaving of the caller and the loader threads
at the accesses to the loaded / loading tables and at thread start, first run, join and exit is
explored up to a preemption bound, for a handful of scenarios x cache states x handlers."""
import collections
import hashlib
import os
import shutil
import tempfile
import time

from gen import docs, xmltext
from mc import env, par, report, sched, snapshot

PROP = "C18"
LEVEL = "model_checking"
RULE = ("all interleavings with <=B preemptions of one caller and the loader threads it spawns, scheduling points = "
        "every access to the loaded table, the loading table, the reload flag, thread start (before/after), join, "
        "exit; per (scenario x cache state x handler); non-trivial = an execution that contained at least one context "
        "switch away from a runnable thread")
WATCHDOG_S = 20


# --------------------------------------------------------------------------- resources

def P(name, values, **attrs):
    return {"name": name, "values": values, "dtype": "int" if isinstance(values[0], int) else "string", "attrs": attrs}


def S(name, typ="t", secs=(), props=(), **attrs):
    return {"name": name, "type": typ, "sections": list(secs), "properties": list(props), "attrs": attrs}


def resource_specs(base, generation="new"):
    """name -> document spec (or raw text).  `generation` old/new differ in one value (stale caches)."""
    U = lambda n: "file://" + os.path.join(base, n)
    v = 1 if generation == "new" else 100
    out = collections.OrderedDict()
    out["leaf.xml"] = docs.doc_of([S("L", "leaftype", props=[P("lp", [v]), P("lq", ["x", "y"])],
                                     secs=[S("LS", "subtype", props=[P("lsp", ["z"])])])])
    out["mid.xml"] = docs.doc_of([S("M", "midtype", props=[P("mp", [2])], include=U("leaf.xml") + "#/L")])
    out["top.xml"] = docs.doc_of([S("T", "toptype", props=[P("tp", [3])], include=U("mid.xml") + "#/M"),
                                  S("T2", "other", props=[P("t2p", [v])])])
    out["d.xml"] = docs.doc_of([S("D", "dtype", props=[P("dp", [v])], secs=[S("DS", "dsub")])])
    out["b.xml"] = docs.doc_of([S("B", "btype", props=[P("bp", [5])], include=U("d.xml") + "#/D")])
    out["c.xml"] = docs.doc_of([S("C", "ctype", props=[P("cp", [6])], include=U("d.xml") + "#/D")])
    out["dia.xml"] = docs.doc_of([S("X", "xtype", include=U("b.xml") + "#/B"),
                                  S("Y", "ytype", include=U("c.xml") + "#/C")])
    out["midmiss.xml"] = docs.doc_of([S("M", "midtype", props=[P("mp", [2])], include=U("nothere.xml") + "#/L"),
                                      S("M2", "midtype", props=[P("m2p", [v])])])
    out["bad.xml"] = "<odML version=\"1.1\"><section><name>broken</name><type>t</type>"
    # can be opened but not decoded: the fetch fails after urlopen succeeded (current generation only)
    if generation == "new":
        out["latin1.xml"] = b'<?xml version="1.0" encoding="ISO-8859-1"?>\n<odML version="1.1"><section><name>caf\xe9</name><type>t</type></section></odML>'
    else:
        out["latin1.xml"] = docs.doc_of([S("cafe", "t")])
    out["midlatin.xml"] = docs.doc_of([S("M", "midtype", props=[P("mp", [2])], include=U("latin1.xml") + "#/cafe")])
    out["midbad.xml"] = docs.doc_of([S("M", "midtype", props=[P("mp", [2])], include=U("bad.xml") + "#/L")])
    return out


def write_resources(base, generation="new"):
    os.makedirs(base, exist_ok=True)
    specs = resource_specs(base, generation)
    for name, spec in specs.items():
        if isinstance(spec, bytes):
            with open(os.path.join(base, name), "wb") as fh:
                fh.write(spec)
            continue
        text = spec if isinstance(spec, str) else xmltext.doc_xml(spec)
        with open(os.path.join(base, name), "w") as fh:
            fh.write(text)
    return specs


def url_of(base, name):
    return "file://" + os.path.join(base, name)


def cache_name(url):
    return ".".join([hashlib.md5(url.encode()).hexdigest(), os.path.basename(url)])


# --------------------------------------------------------------------------- reference resolution

def resolved_spec(specs, base, name, path=None, depth=0):
    """Reference: the document spec of resource `name` with every include resolved (own children
    first, then copies of the target's children whose names are not taken)."""
    if depth > 8:
        raise ValueError("include cycle")
    spec = specs.get(name)
    if spec is None or isinstance(spec, (str, bytes)):
        raise LookupError(name)

    def res_sec(s):
        out = dict(s)
        out["sections"] = [res_sec(c) for c in s["sections"]]
        out["properties"] = [dict(p) for p in s["properties"]]
        out["attrs"] = dict(s["attrs"])
        inc = out["attrs"].pop("include", None)
        if inc:
            url, _, p = inc.partition("#")
            tname = os.path.basename(url)
            tdoc = resolved_spec(specs, base, tname, depth=depth + 1)
            target = tdoc["sections"][0]
            if p:
                node = {"sections": tdoc["sections"]}
                for part in [x for x in p.split("/") if x]:
                    node = [c for c in node["sections"] if c["name"] == part][0]
                target = node
            have_s = set(c["name"] for c in out["sections"])
            have_p = set(c["name"] for c in out["properties"])
            out["sections"] += [c for c in target["sections"] if c["name"] not in have_s]
            out["properties"] += [c for c in target["properties"] if c["name"] not in have_p]
        return out
    return {"attrs": dict(spec["attrs"]), "sections": [res_sec(s) for s in spec["sections"]]}


def norm_snapshot(doc):
    """Snapshot without ids and references, siblings sorted by name (order is not C18's subject)."""
    s = snapshot.strip(snapshot.snap(doc, ids=False), ("link", "include", "repository"))

    def rec(n):
        if "sections" in n:
            n["sections"] = sorted((rec(c) for c in n["sections"]), key=lambda c: snapshot.canon(c.get("name")))
        if "properties" in n:
            n["properties"] = sorted(n["properties"], key=lambda c: snapshot.canon(c.get("name")))
        return n
    return rec(s)


def reference_snapshot(specs, base, name):
    try:
        rs = resolved_spec(specs, base, name)
    except LookupError:
        return None
    return norm_snapshot(docs.build(rs))


# --------------------------------------------------------------------------- controlled handlers

def make_handlers():
    import odml.terminology as tm
    import odml.templates as tp

    def flagged(cls):
        def getter(self):
            s = sched.CURRENT
            if s is not None:
                s.point("flag.read")
            return self.__dict__.get("_rc", False)

        def setter(self, v):
            s = sched.CURRENT
            if s is not None:
                s.point("flag.write")
            self.__dict__["_rc"] = v
        return property(getter, setter)

    class CTerminologies(sched.TableMixin, tm.Terminologies):
        _table_name = "loaded"
        reload_cache = flagged(None)

    class CTemplates(sched.TableMixin, tp.TemplateHandler):
        _table_name = "tloaded"

    return CTerminologies, CTemplates


class Ctx(object):
    pass


def setup_execution(item, base):
    """Fresh handlers, loading tables and cache directory for one execution."""
    import odml.terminology as tm
    import odml.templates as tp
    # the shims go in first: synchronisation objects the handlers create are controlled ones; those that
    # exist already (module or class level) are replaced by fresh controlled twins
    for mod in (tm, tp):
        if not isinstance(mod.threading, sched.ThreadingShim):
            mod.threading = sched.ThreadingShim()
        for name in ("Thread", "Lock", "RLock", "Event", "Condition", "Semaphore", "BoundedSemaphore"):
            if name in mod.__dict__ and getattr(sched._threading, name) is mod.__dict__[name]:
                setattr(mod, name, getattr(sched.ThreadingShim, name))       # from threading import ...
        if "time" in mod.__dict__ and not isinstance(mod.time, sched.TimeShim) and getattr(mod.time, "__name__", "") == "time":
            mod.time = sched.TimeShim(mod.time)
        if mod.__dict__.get("sleep") is time.sleep:
            mod.sleep = sched.TimeShim(time).sleep
    CT, CP = make_handlers()
    sched.adopt_primitives(tm, tp, tm.Terminologies, tp.TemplateHandler)
    CT.loading = sched.LoadingTable()
    CP.loading = sched.LoadingTable()
    CP.loading._table_name = "tloading"
    th = CT()
    ph = CP()
    for h in (th, ph):
        if "loading" in h.__dict__ and not isinstance(h.__dict__["loading"], sched.LoadingTable):
            h.__dict__["loading"] = sched.LoadingTable(h.__dict__["loading"])
    tm.terminologies = th
    tm.load, tm.deferred_load, tm.refresh = th.load, th.deferred_load, th.refresh
    sched.adopt_primitives(th, ph)
    ctx = Ctx()
    ctx.term, ctx.templ = th, ph
    ctx.base = base
    ctx.tmp = tempfile.mkdtemp(prefix="x", dir=os.path.join(base, "_tmp"))
    tempfile.tempdir = ctx.tmp
    ctx.cache_dir = os.path.join(ctx.tmp, "odml.cache")
    ctx.pre_cache = {}
    cache = item["cache"]
    if cache != "empty":
        os.makedirs(ctx.cache_dir)
        src = os.path.join(base, "warm" if cache == "warm" else "old")
        for name in os.listdir(src):
            url = url_of(os.path.join(base, "res"), name)
            dst = os.path.join(ctx.cache_dir, cache_name(url))
            shutil.copy(os.path.join(src, name), dst)
            if cache.startswith("stale"):
                old = time.time() - 2 * 86400
                os.utime(dst, (old, old))
            with open(dst, "rb") as fh:
                ctx.pre_cache[cache_name(url)] = fh.read()
    return ctx


# --------------------------------------------------------------------------- scenarios

def scenario_body(item, ctx, obs):
    """The caller: a few public calls; every result / exception is an observation."""
    import odml
    res = os.path.join(ctx.base, item.get("resdir", "res"))
    U = lambda n: url_of(res, n)
    H = ctx.term if item["handler"] == "terminology" else ctx.templ

    def call(label, fn):
        try:
            v = fn()
            # what the caller holds at the moment the call returns (not what it becomes later)
            obs[label] = ("ok", v, observe(v))
        except sched.Abort:
            raise
        except BaseException as exc:
            obs[label] = ("raise", type(exc).__name__, str(exc)[:200])

    sc = item["scenario"]
    if sc == "chain":
        call("deferred_load(top)", lambda: H.deferred_load(U("top.xml")))
        call("load(top)", lambda: H.load(U("top.xml")))
        call("load(top)#2", lambda: H.load(U("top.xml")))
        call("load(mid)", lambda: ctx.term.load(U("mid.xml")))
        call("load(leaf)", lambda: ctx.term.load(U("leaf.xml")))
    elif sc == "diamond":
        call("Section(include=b)", lambda: odml.Section("x", type="t", include=U("b.xml") + "#/B") and None)
        call("Section(include=c)", lambda: odml.Section("y", type="t", include=U("c.xml") + "#/C") and None)
        call("load(dia)", lambda: H.load(U("dia.xml")))
        call("load(d)", lambda: H.load(U("d.xml")))
        call("load(dia)#2", lambda: H.load(U("dia.xml")))
    elif sc == "same-url":
        call("deferred_load(leaf)", lambda: H.deferred_load(U("leaf.xml")))
        call("deferred_load(leaf)#2", lambda: H.deferred_load(U("leaf.xml")))
        call("load(leaf)", lambda: H.load(U("leaf.xml")))
        call("load(leaf)#2", lambda: H.load(U("leaf.xml")))
    elif sc == "two-deferred":
        call("deferred_load(mid)", lambda: H.deferred_load(U("mid.xml")))
        call("deferred_load(leaf)", lambda: H.deferred_load(U("leaf.xml")))
        call("load(leaf)", lambda: H.load(U("leaf.xml")))
        call("load(mid)", lambda: H.load(U("mid.xml")))
        call("load(leaf)#2", lambda: H.load(U("leaf.xml")))
    elif sc == "three-deferred":
        # three loaders at once, each needing what the next one loads
        call("deferred_load(top)", lambda: H.deferred_load(U("top.xml")))
        call("deferred_load(mid)", lambda: ctx.term.deferred_load(U("mid.xml")))
        call("deferred_load(leaf)", lambda: ctx.term.deferred_load(U("leaf.xml")))
        call("load(leaf)", lambda: ctx.term.load(U("leaf.xml")))
        call("load(top)", lambda: H.load(U("top.xml")))
        call("load(mid)", lambda: ctx.term.load(U("mid.xml")))
        call("load(leaf)#2", lambda: ctx.term.load(U("leaf.xml")))
    elif sc == "refresh-included":
        # refresh of an included resource while the including one is being loaded in the background
        call("deferred_load(mid)", lambda: H.deferred_load(U("mid.xml")))
        call("refresh(leaf)", lambda: ctx.term.refresh(U("leaf.xml")))
        call("load(mid)", lambda: H.load(U("mid.xml")))
        call("load(leaf)", lambda: ctx.term.load(U("leaf.xml")))
        call("load(leaf)#2", lambda: ctx.term.load(U("leaf.xml")))
    elif sc == "missing":
        call("deferred_load(nothere)", lambda: H.deferred_load(U("nothere.xml")))
        call("load(nothere)", lambda: H.load(U("nothere.xml")))
        call("load(nothere)#2", lambda: H.load(U("nothere.xml")))
    elif sc == "missing-included":
        call("deferred_load(midmiss)", lambda: H.deferred_load(U("midmiss.xml")))
        call("load(midmiss)", lambda: H.load(U("midmiss.xml")))
        call("load(midmiss)#2", lambda: H.load(U("midmiss.xml")))
    elif sc == "undecodable":
        call("deferred_load(latin1)", lambda: H.deferred_load(U("latin1.xml")))
        call("load(latin1)", lambda: H.load(U("latin1.xml")))
        call("load(latin1)#2", lambda: H.load(U("latin1.xml")))
    elif sc == "undecodable-included":
        call("deferred_load(midlatin)", lambda: H.deferred_load(U("midlatin.xml")))
        call("load(midlatin)", lambda: H.load(U("midlatin.xml")))
        call("load(midlatin)#2", lambda: H.load(U("midlatin.xml")))
    elif sc == "unparsable":
        call("deferred_load(bad)", lambda: H.deferred_load(U("bad.xml")))
        call("load(bad)", lambda: H.load(U("bad.xml")))
        call("load(bad)#2", lambda: H.load(U("bad.xml")))
    elif sc == "unparsable-included":
        call("deferred_load(midbad)", lambda: H.deferred_load(U("midbad.xml")))
        call("load(midbad)", lambda: H.load(U("midbad.xml")))
        call("load(midbad)#2", lambda: H.load(U("midbad.xml")))
    elif sc == "object-api":
        doc = odml.Document()
        sec = odml.Section("s", type="t", parent=doc)

        def set_include():
            sec.include = U("mid.xml") + "#/M"
            return sec
        call("sec.include=mid", set_include)

        def set_repo():
            doc.repository = U("leaf.xml")
        call("doc.repository=leaf", set_repo)
        q = odml.Section("q", type="leaftype", parent=doc)
        pr = odml.Property("lp", values=[7], parent=q)
        call("section.get_terminology_equivalent", lambda: q.get_terminology_equivalent())
        call("property.get_terminology_equivalent", lambda: pr.get_terminology_equivalent())
        call("load(leaf)", lambda: ctx.term.load(U("leaf.xml")))
    elif sc == "refresh":
        call("deferred_load(leaf)", lambda: H.deferred_load(U("leaf.xml")))
        call("refresh(leaf)", lambda: H.refresh(U("leaf.xml")))
        call("load(leaf)", lambda: H.load(U("leaf.xml")))
        call("load(leaf)#2", lambda: H.load(U("leaf.xml")))
    elif sc == "clone-section":
        call("deferred_load(mid)", lambda: H.deferred_load(U("mid.xml")))
        call("clone_section(mid, M)", lambda: H.clone_section(U("mid.xml"), "M"))
        call("load(mid)", lambda: H.load(U("mid.xml")))
    else:
        raise env.HarnessError("unknown scenario %r" % sc)


# what each labelled call must return: ("doc", resource) / ("same", other label) / ("none",) /
# ("none-or-doc",) / ("any",) / ("section", resource, path) / ("named", name)
EXPECT = {
    "chain": {"deferred_load(top)": ("void",), "load(top)": ("doc", "top.xml"), "load(top)#2": ("same", "load(top)"),
              "load(mid)": ("doc", "mid.xml"), "load(leaf)": ("doc", "leaf.xml")},
    "diamond": {"Section(include=b)": ("void",), "Section(include=c)": ("void",), "load(dia)": ("doc", "dia.xml"),
                "load(d)": ("doc", "d.xml"), "load(dia)#2": ("same", "load(dia)")},
    "same-url": {"deferred_load(leaf)": ("void",), "deferred_load(leaf)#2": ("void",), "load(leaf)": ("doc", "leaf.xml"),
                 "load(leaf)#2": ("same", "load(leaf)")},
    "two-deferred": {"deferred_load(mid)": ("void",), "deferred_load(leaf)": ("void",), "load(leaf)": ("doc", "leaf.xml"),
                     "load(mid)": ("doc", "mid.xml"), "load(leaf)#2": ("same", "load(leaf)")},
    "three-deferred": {"deferred_load(top)": ("void",), "deferred_load(mid)": ("void",), "deferred_load(leaf)": ("void",),
                       "load(leaf)": ("doc", "leaf.xml"), "load(top)": ("doc", "top.xml"), "load(mid)": ("doc", "mid.xml"),
                       "load(leaf)#2": ("same", "load(leaf)")},
    "refresh-included": {"deferred_load(mid)": ("void",), "refresh(leaf)": ("void",), "load(mid)": ("doc", "mid.xml"),
                         "load(leaf)": ("doc", "leaf.xml"), "load(leaf)#2": ("same", "load(leaf)")},
    "missing": {"deferred_load(nothere)": ("void",), "load(nothere)": ("none",), "load(nothere)#2": ("none",)},
    "missing-included": {"deferred_load(midmiss)": ("void",), "load(midmiss)": ("none-or-doc",),
                         "load(midmiss)#2": ("none-or-doc",)},
    "undecodable": {"deferred_load(latin1)": ("void",), "load(latin1)": ("none-or-doc",), "load(latin1)#2": ("none-or-doc",)},
    "undecodable-included": {"deferred_load(midlatin)": ("void",), "load(midlatin)": ("none-or-doc",),
                             "load(midlatin)#2": ("none-or-doc",)},
    "unparsable": {"deferred_load(bad)": ("void",), "load(bad)": ("none",), "load(bad)#2": ("none",)},
    "unparsable-included": {"deferred_load(midbad)": ("void",), "load(midbad)": ("none-or-doc",),
                            "load(midbad)#2": ("none-or-doc",)},
    "object-api": {"sec.include=mid": ("section", "mid.xml", "M"), "doc.repository=leaf": ("void",),
                   "section.get_terminology_equivalent": ("named", "L"),
                   "property.get_terminology_equivalent": ("named", "lp"), "load(leaf)": ("doc", "leaf.xml")},
    "refresh": {"deferred_load(leaf)": ("void",), "refresh(leaf)": ("void",), "load(leaf)": ("doc", "leaf.xml"),
                "load(leaf)#2": ("same", "load(leaf)")},
    "clone-section": {"deferred_load(mid)": ("void",), "clone_section(mid, M)": ("section", "mid.xml", "M"),
                      "load(mid)": ("doc", "mid.xml")},
}
UNFETCHABLE = {"missing": ["nothere.xml"], "missing-included": ["nothere.xml"], "undecodable": ["latin1.xml"],
               "undecodable-included": ["latin1.xml"]}


def observe(v):
    from odml.doc import BaseDocument
    from odml.section import BaseSection
    from odml.property import BaseProperty
    if isinstance(v, (BaseDocument, BaseSection, BaseProperty)):
        return norm_snapshot(v)
    return None


def describe(v, snap=None):
    """Schedule-independent description of a returned value."""
    from odml.doc import BaseDocument
    if v is None:
        return "None"
    if isinstance(v, BaseDocument):
        return "Document:" + hashlib.sha1(snapshot.canon(snap if snap is not None else norm_snapshot(v)).encode()).hexdigest()[:10]
    return type(v).__name__ + ":" + str(getattr(v, "name", ""))


def judge(item, s, refs):
    """Failures of one complete execution. refs: resource name -> reference snapshot (or None)."""
    fails = []
    obs, ctx = s.obs, s.ctx
    sc = item["scenario"]

    def fail(clause, call=None, observed=None):
        fails.append(report.failure("schedules", {
            "scenario": sc, "handler": item["handler"], "cache": item["cache"], "clause": clause, "call": call},
            {"item": item, "choices": [p["choice"] for p in s.points]}, observed=observed,
            explain="%s/%s/%s, %d preemption(s): %s %s -> %s" % (sc, item["handler"], item["cache"],
                                                                sched.preemptions(s.points), clause, call or "",
                                                                snapshot.short(observed if observed is not None else ""))))
    if s.deadlock:
        fail("deadlock", None, [(t.tid, t.state) for t in s.threads])
        return fails, "deadlock"
    if getattr(s, "livelock", False):
        fail("did-not-terminate", None, "polling loop still running after %d yields" % sched.MAX_YIELDS)
        return fails, "livelock"
    if getattr(s, "timed_out", False):
        fail("did-not-terminate", None, None)
        return fails, "timeout"
    summary = []
    stale_removed = item["cache"] == "stale-removed"
    for label, exp in EXPECT[sc].items():
        o = obs.get(label)
        if o is None:
            fail("call-not-reached", label)
            continue
        if o[0] == "raise":
            fail("caller-sees-exception:" + o[1], label, o[2])
            summary.append((label, "raise:" + o[1]))
            continue
        v, vsnap = o[1], o[2]
        summary.append((label, describe(v, vsnap)))
        kind = exp[0]
        if kind == "void":
            continue
        if stale_removed and kind in ("doc", "same"):
            # the source is gone and only a stale copy exists: None or the stale copy are both acceptable
            if v is not None and vsnap != refs["old"].get(exp[1] if kind == "doc" else "leaf.xml"):
                fail("result-differs-from-direct-parse", label, describe(v))
            continue
        if kind == "doc":
            want = refs["new"].get(exp[1])
            if v is None:
                fail("load-returned-None-for-a-loadable-resource", label)
            elif vsnap != want:
                df = snapshot.diff(want, vsnap)
                fail("result-differs-from-direct-parse", label, snapshot.short(df))
        elif kind == "same":
            first = obs.get(exp[1])
            if first and first[0] == "ok" and first[1] is not v:
                fail("later-load-returns-a-different-object", label, describe(v))
        elif kind == "none":
            if v is not None:
                fail("load-of-an-unloadable-resource-returned-something", label, describe(v))
        elif kind == "none-or-doc":
            from odml.doc import BaseDocument
            if v is not None and not isinstance(v, BaseDocument):
                fail("result-is-neither-None-nor-a-Document", label, describe(v))
        elif kind == "section":
            want = refs["new"].get(exp[1])
            wsec = [c for c in want["sections"] if c["name"][1] == repr(exp[2])][0]
            got = vsnap
            if got is None:
                fail("load-returned-None-for-a-loadable-resource", label)
            else:
                for part in ("sections", "properties"):
                    if got[part] != wsec[part]:
                        fail("result-differs-from-direct-parse", label,
                             snapshot.short(snapshot.diff(wsec[part], got[part])))
                        break
        elif kind == "named":
            if v is None or getattr(v, "name", None) != exp[1]:
                fail("terminology-equivalent-not-found", label, describe(v))
    # cache clause
    listing = sorted(os.listdir(ctx.cache_dir)) if os.path.isdir(ctx.cache_dir) else []
    res = os.path.join(ctx.base, item.get("resdir", "res"))
    unfetchable = list(UNFETCHABLE.get(sc, []))
    if stale_removed:
        unfetchable.append("leaf.xml")
    for name in unfetchable:
        cn = cache_name(url_of(res, name))
        if cn in listing:
            with open(os.path.join(ctx.cache_dir, cn), "rb") as fh:
                data = fh.read()
            if cn not in ctx.pre_cache:
                fail("failed-fetch-created-a-cache-file", name, data[:80].decode("utf-8", "replace"))
            elif ctx.pre_cache[cn] != data:
                fail("failed-fetch-overwrote-a-cache-file", name, data[:80].decode("utf-8", "replace"))
        elif cn in ctx.pre_cache:
            fail("failed-fetch-removed-a-cache-file", name)
    return fails, tuple(summary)


# --------------------------------------------------------------------------- exploration

SCENARIOS_TERM = ["same-url", "chain", "two-deferred", "three-deferred", "refresh-included", "diamond", "missing", "missing-included", "unparsable",
                  "unparsable-included", "undecodable", "undecodable-included", "object-api", "refresh"]
SCENARIOS_TEMPL = ["same-url", "chain", "two-deferred", "three-deferred", "missing", "missing-included", "unparsable",
                   "unparsable-included", "undecodable", "undecodable-included", "clone-section"]


def items_for(tier):
    out = []
    for handler, scs in (("terminology", SCENARIOS_TERM), ("templates", SCENARIOS_TEMPL)):
        for sc in scs:
            for cache in ("empty", "warm", "stale-changed"):
                if sc == "three-deferred" and cache == "stale-changed" and tier == "quick":
                    continue
                out.append({"scenario": sc, "handler": handler, "cache": cache})
            if sc in ("same-url", "refresh"):
                out.append({"scenario": sc, "handler": handler, "cache": "stale-removed", "resdir": "gone"})
    return out


# scenarios whose complete schedule space is small (about a hundred executions): explored without preemption bound
UNBOUNDED = ("same-url", "missing", "unparsable", "undecodable", "refresh")
_BASES = {}


def base_dir():
    """Per-process directory with the resource files (res: current, old: previous generation,
    gone: like res but without leaf.xml)."""
    pid = os.getpid()
    if pid not in _BASES:
        base = env.fresh_dir("c18")
        write_resources(os.path.join(base, "res"), "new")
        # the old generation lives under the same URLs: written to a side directory with the res URLs inside
        specs_old = resource_specs(os.path.join(base, "res"), "old")
        os.makedirs(os.path.join(base, "old"))
        for name, spec in specs_old.items():
            with open(os.path.join(base, "old", name), "w") as fh:
                fh.write(spec if isinstance(spec, str) else xmltext.doc_xml(spec))
        # a warm cache can only hold what was once fetched successfully: the valid earlier copy
        os.makedirs(os.path.join(base, "warm"))
        for name in os.listdir(os.path.join(base, "res")):
            src = os.path.join(base, "old" if name == "latin1.xml" else "res", name)
            shutil.copy(src, os.path.join(base, "warm", name))
        write_resources(os.path.join(base, "gone"), "new")
        os.unlink(os.path.join(base, "gone", "leaf.xml"))
        os.makedirs(os.path.join(base, "_tmp"))
        _BASES[pid] = base
    return _BASES[pid]


_REFS = {}


def references(base):
    if base not in _REFS:
        res = os.path.join(base, "res")
        new = resource_specs(res, "new")
        old = resource_specs(res, "old")
        _REFS[base] = {"new": {n: reference_snapshot(new, res, n) for n in new},
                       "old": {n: reference_snapshot(old, res, n) for n in old}}
    return _REFS[base]


def fix_stale_removed(item, base):
    """stale-removed: URLs point into 'gone' (no leaf.xml there); the cache holds the old generation
    of those URLs."""
    return item


def make_execute(item, base):
    def execute(prefix):
        env.UUIDS.reset(env.SEED)
        ctx = setup_execution(item, base) if item["cache"] != "stale-removed" else setup_stale_removed(item, base)
        obs = {}
        s = sched.run_one(lambda: scenario_body(item, ctx, obs), prefix, timeout=WATCHDOG_S)
        s.obs, s.ctx = obs, ctx
        return s
    return execute


def setup_stale_removed(item, base):
    it = dict(item, cache="empty")
    ctx = setup_execution(it, base)
    os.makedirs(ctx.cache_dir, exist_ok=True)
    gone = os.path.join(base, "gone")
    for name in os.listdir(os.path.join(base, "old")):
        url = url_of(gone, name)
        dst = os.path.join(ctx.cache_dir, cache_name(url))
        with open(os.path.join(base, "old", name)) as fh:
            text = fh.read().replace(os.path.join(base, "res"), gone)
        with open(dst, "w") as fh:
            fh.write(text)
        old = time.time() - 2 * 86400
        os.utime(dst, (old, old))
        with open(dst, "rb") as fh:
            ctx.pre_cache[cache_name(url)] = fh.read()
    return ctx


def explore_task(packed):
    """Worker: explore the subtree below `root` of one item up to the preemption bound."""
    item, root, bound, cap = packed
    env.install(silence=True, sync_threads=False)
    base = base_dir()
    refs = references(base)
    execute = make_execute(item, base)
    out = {"item": item, "failures": [], "outcomes": collections.Counter(), "summaries": {}, "kinds": set(),
           "leftover": 0, "alternatives": []}
    seen = {}

    def on_exec(s, choices):
        fails, summary = judge(item, s, refs)
        out["kinds"] |= s.kinds
        out["leftover"] += getattr(s, "leftover", 0)
        npre = sched.preemptions(s.points)
        key = repr(summary)
        if key not in out["summaries"] or out["summaries"][key][0] > npre:
            out["summaries"][key] = (npre, choices)
        for f in fails:
            k = report.class_key(f)
            f["observed"] = {"detail": f["observed"], "preemptions": npre}
            if k in seen:
                seen[k]["count"] += 1
                if seen[k]["observed"]["preemptions"] > npre:       # keep the schedule with the fewest preemptions
                    f["count"] = seen[k]["count"]
                    out["failures"][out["failures"].index(seen[k])] = f
                    seen[k] = f
            else:
                f["count"] = 1
                seen[k] = f
                out["failures"].append(f)
        shutil.rmtree(s.ctx.tmp, ignore_errors=True)

    if root is None:
        # phase 1: the default execution only; its alternatives become the roots of phase 2
        s = execute([])
        # determinism guard: the same schedule replayed must give the same points and the same observations
        s_again = execute([])
        a = ([(p["label"], p["tid"], p["n"]) for p in s.points], repr(judge(item, s, refs)[1]))
        b = ([(p["label"], p["tid"], p["n"]) for p in s_again.points], repr(judge(item, s_again, refs)[1]))
        shutil.rmtree(s_again.ctx.tmp, ignore_errors=True)
        if a != b:
            raise env.HarnessError("replaying the default schedule of %r gave a different execution" % (item,))
        on_exec(s, [p["choice"] for p in s.points])
        cost = 0
        for i, p in enumerate(s.points):
            for alt in range(1, p["n"]):
                if cost + (1 if p["still"] else 0) <= bound:
                    out["alternatives"].append([q["choice"] for q in s.points[:i]] + [alt])
        out["stats"] = {"executions": 1, "points": len(s.points), "max_points": len(s.points), "capped": False,
                        "by_preemptions": {0: 1}}
    else:
        out["stats"] = sched.explore(execute, bound, max_executions=cap, on_execution=on_exec, roots=[root])
    out["outcomes"] = dict(out["outcomes"])
    out["kinds"] = sorted(out["kinds"])
    return out


def check(tier):
    bound = 2 if tier == "quick" else 3
    cap = 200000
    run = report.Run(PROP, tier, LEVEL, RULE, assumptions=[
        "cache-file operations and XML parsing are not scheduling points (the statement's granularity is table accesses and "
        "thread start/run/join); they execute atomically between two points",
        "resources are file: URLs in a scratch directory; 'stale' = cache file two days old",
        "for resources whose include cannot be loaded the statement fixes no result: None or a Document, identical in every "
        "schedule, and no exception",
        "sibling order inside a resolved document is not judged here (C12)",
    ])
    items = items_for(tier)
    run.bounds = {"preemption_bound_completed": bound, "preemption_bound_three_deferred": bound - 1,
                  "scenario_variants": len(items),
                  "explored_without_preemption_bound": list(UNBOUNDED)}
    per_item = collections.OrderedDict()

    def absorb(res):
        key = snapshot.canon(res["item"])
        st = per_item.setdefault(key, {"item": res["item"], "executions": 0, "points": 0, "max_points": 0,
                                       "summaries": {}, "kinds": set(), "by_preemptions": collections.Counter(),
                                       "capped": False, "leftover": 0})
        st["executions"] += res["stats"]["executions"]
        st["points"] += res["stats"]["points"]
        st["max_points"] = max(st["max_points"], res["stats"]["max_points"])
        st["capped"] = st["capped"] or res["stats"]["capped"]
        st["leftover"] += res["leftover"]
        st["by_preemptions"].update({int(k): v for k, v in res["stats"]["by_preemptions"].items()})
        st["kinds"] |= set(res["kinds"])
        for k, v in res["summaries"].items():
            if k not in st["summaries"] or st["summaries"][k][0] > v[0]:
                st["summaries"][k] = v
        run.add_failures(res["failures"])

    roots = []
    # the three-loader scenario has four threads and 74 points: one preemption less than the others
    bound_of = lambda it: 99 if it["scenario"] in UNBOUNDED else (bound - 1 if it["scenario"] == "three-deferred" else bound)
    for res in par.pmap("checks.c18", "explore_task", [(it, None, bound_of(it), cap) for it in items], sync_threads=False):
        absorb(res)
        for alt in res["alternatives"]:
            roots.append((res["item"], alt, bound_of(res["item"]), cap))
    roots.sort(key=lambda r: (snapshot.canon(r[0]), r[1]))
    for res in par.pmap("checks.c18", "explore_task", roots, sync_threads=False):
        absorb(res)

    # differential clause: every schedule of a scenario variant gives the caller the same observations
    for key, st in per_item.items():
        run.states += st["points"]
        run.transitions += st["executions"]
        run.evaluations += st["executions"]
        run.nontrivial += sum(v for k, v in st["by_preemptions"].items() if k > 0)
        it = st["item"]
        run.outcomes["%s/%s/%s: %d distinct caller observation(s)" % (
            it["scenario"], it["handler"], it["cache"], len(st["summaries"]))] += st["executions"]
        if st["capped"]:
            run.caps_hit.append("%s: execution cap reached" % key)
        need = {"loaded" if it["handler"] == "terminology" else "tloaded", "thread"}
        if not need <= set(k.split(".")[0] for k in st["kinds"]):
            raise env.HarnessError("scheduling points missing for %s: saw only %s (seam bypassed?)" % (key, sorted(st["kinds"])))
        if len(st["summaries"]) > 1:
            ordered = sorted(st["summaries"].items(), key=lambda kv: (kv[1][0], kv[0]))
            base_summary = ordered[0]
            for k, (npre, choices) in ordered[1:]:
                # only report the difference when no other clause already explains it
                run.add_failures([report.failure("schedules", {
                    "scenario": it["scenario"], "handler": it["handler"], "cache": it["cache"],
                    "clause": "observations-depend-on-the-schedule", "call": None},
                    {"item": it, "choices": choices, "reference_choices": base_summary[1][1]},
                    observed={"detail": k[:400], "preemptions": npre}, expected=base_summary[0][:400],
                    explain="two schedules give the caller different observations")])
                break
    run.extra["per_scenario"] = [
        {"scenario": st["item"]["scenario"], "handler": st["item"]["handler"], "cache": st["item"]["cache"],
         "executions": st["executions"], "scheduling_points": st["points"], "max_points_per_execution": st["max_points"],
         "by_preemptions": dict(sorted(st["by_preemptions"].items())),
         "distinct_caller_observations": len(st["summaries"]), "point_kinds": sorted(st["kinds"]),
         "threads_left_running": st["leftover"]}
        for st in per_item.values()]
    run.samples = [{"item": st["item"], "executions": st["executions"]} for st in list(per_item.values())[:4]]
    return run.finish(reproduce=lambda f: replay(f))


def replay(rec):
    env.install(silence=True, sync_threads=False)
    case = rec["case"]
    item = case["item"]
    base = base_dir()
    refs = references(base)
    execute = make_execute(item, base)
    s = execute(case["choices"])
    fails, summary = judge(item, s, refs)
    for f in fails:
        f["observed"] = {"detail": f["observed"], "preemptions": sched.preemptions(s.points)}
    if rec.get("desc", {}).get("clause") == "observations-depend-on-the-schedule":
        s2 = execute(case.get("reference_choices", []))
        _, summary2 = judge(item, s2, refs)
        if summary != summary2:
            fails.append(report.failure("schedules", rec["desc"], case, observed=repr(summary)[:400],
                                        expected=repr(summary2)[:400]))
    shutil.rmtree(s.ctx.tmp, ignore_errors=True)
    return fails
