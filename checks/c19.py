"""C19 - validation observes only; repeatable; custom rules stay private.

History engine over *validator-use events*: every sequence of <=N events (default validations,
custom validations on reset=True instances with marker rules, object creation, cardinality
changes, saves and loads) over a family of documents is executed on the real classes; the last
event of each sequence is judged (every prefix is itself an enumerated sequence):

* the process-wide rule registry is, by content and identity, what it was at import time;
* a validation event leaves the snapshot (values, attributes, child identity) of every watched
  object unchanged;
* a default validation after the history reports the same multiset of issues as a default
  validation of a twin document that only went through the history's editing events under a
  pristine registry, reports it again when repeated, and never contains a marker issue;
* every reset=True instance created during the history yields exactly its own marker issues,
  one per object of the registered class in its scope - also when re-run at the end.

The family holds, besides plain documents, string Properties whose values look like other dtypes (of one kind and
mixed: ties and majorities) and documents in a state a validator might 'helpfully' complete: Sections with a link or an
include (file: URL) that is not resolved, with and without cardinalities, next to resolved ones. The snapshot covers
attributes (link, include), values, children by identity and the resolved / unresolved state of every Section. The
document is also written out, read back and validated: the loaded copy must stay as it was loaded, too.

A second layer validates the saved family (plus every combination of look-alike kinds within one Property) in child
processes with 8 (quick) / 24 (thorough) different hash seeds: same issues as the reference process, same issues when
repeated, loaded document unchanged."""
import collections
import itertools
import json
import os
import re
import subprocess
import sys

from gen import docs
from mc import env, par, report, snapshot
from ref import tree

PROP = "C19"
LEVEL = "model_checking"
RULE = ("every sequence of <=N validator-use events (alphabet of %d events) x %d documents, last event judged; "
        "non-trivial = the judged event is a validation that reported at least one issue, or an event that is not a validation")
WATCHDOG_S = 20

UUID_RE = re.compile(r"[0-9a-f]{8}-[0-9a-f]{4}-[0-9a-f]{4}-[0-9a-f]{4}-[0-9a-f]{12}")


# --------------------------------------------------------------------------- registry

def registry():
    from odml.validation import Validation
    return Validation._handlers


def fingerprint():
    out = {}
    for k, hs in registry().items():
        out[k] = sorted("%s.%s@%d" % (getattr(h, "__module__", "?"), getattr(h, "__qualname__", repr(h)), id(h))
                        for h in hs)
    return out


_BASE = None          # import-time registry: {class key: frozenset(handlers)}


def base_registry():
    global _BASE
    if _BASE is None:
        env.install()
        # a pristine interpreter tells what the registry is at import time
        code = ("import sys; sys.path.insert(0, %r); import odml.validation as v; import json; "
                "print(json.dumps({k: sorted(h.__module__ + '.' + h.__qualname__ for h in hs) "
                "for k, hs in v.Validation._handlers.items()}))" % env.REPO)
        out = subprocess.run([sys.executable, "-c", code], capture_output=True, text=True,
                             env=dict(os.environ, PYTHONDONTWRITEBYTECODE="1"))
        if out.returncode:
            raise env.HarnessError("cannot read the import-time registry: %s" % out.stderr[-400:])
        names = json.loads(out.stdout)
        here = {k: sorted(h.__module__ + "." + h.__qualname__ for h in hs) for k, hs in registry().items()}
        if here != names:
            raise env.HarnessError("registry of this process already differs from a pristine import: %r vs %r"
                                   % (here, names))
        _BASE = {k: frozenset(hs) for k, hs in registry().items()}
    return _BASE


def restore_registry():
    from odml.validation import Validation
    base = base_registry()
    Validation._handlers = {k: set(v) for k, v in base.items()}


def registry_delta():
    base = base_registry()
    now = registry()
    delta = []
    for k in sorted(set(base) | set(now), key=str):
        b, n = base.get(k, frozenset()), set(now.get(k, ()))
        for h in n - b:
            delta.append("+%s:%s" % (k, getattr(h, "__qualname__", repr(h))))
        for h in b - n:
            delta.append("-%s:%s" % (k, getattr(h, "__qualname__", repr(h))))
    return delta


# --------------------------------------------------------------------------- marker rules

def _marker(tag):
    def rule(obj):
        from odml.validation import ValidationError, IssueID, LABEL_WARNING
        yield ValidationError(obj, "marker %s" % tag, LABEL_WARNING, IssueID.custom_validation)
    rule.__name__ = rule.__qualname__ = "marker_%s" % tag
    return rule


R = {"R1": _marker("R1"), "R2": _marker("R2")}


# --------------------------------------------------------------------------- documents

def _P(name, **k):
    return {"name": name, "values": k.pop("values", ["x"]), "dtype": k.pop("dtype", "string"), "attrs": k}


def _S(name, typ="t", secs=(), props=(), **k):
    return {"name": name, "type": typ, "sections": list(secs), "properties": list(props), "attrs": k}


# string values that look like values of another dtype: one class per pattern of the string-values rule, two
# members each (a Property of one class needs two values to be told from a single value), plus a plain word
LOOKALIKE = collections.OrderedDict([
    ("int", ["1", "2"]), ("float", ["2.5", "0.5"]), ("boolean", ["true", "false"]),
    ("date", ["2020-01-01", "1999-12-31"]), ("time", ["12:30", "13:45:10"]),
    ("datetime", ["2020-01-01 12:30:00", "1999-12-31 23:59"]), ("2-tuple", ["(1;2)", "(3;4)"]),
    ("text", ["a\nb", "c\nd"]), ("string", ["x", "y z"])])
LOOKALIKE_CORE = ["int", "float", "boolean", "date", "string"]

_INCLUDE_XML = """<?xml version="1.0" encoding="UTF-8"?>
<odML version="1.1">
  <id>5eed1111-0000-4000-8000-000000000001</id>
  <section>
    <id>5eed1111-0000-4000-8000-000000000002</id>
    <type>hardware</type>
    <name>included</name>
    <definition>an included Section</definition>
    <section>
      <id>5eed1111-0000-4000-8000-000000000003</id>
      <type>hardware/filter</type>
      <name>filter</name>
    </section>
    <property>
      <id>5eed1111-0000-4000-8000-000000000004</id>
      <name>gain</name>
      <value>10</value>
      <type>int</type>
    </property>
    <property>
      <id>5eed1111-0000-4000-8000-000000000005</id>
      <name>model</name>
      <value>[A1,B2]</value>
      <type>string</type>
    </property>
  </section>
</odML>
"""


def include_url():
    """file: URL of a small odML file of this process (written on first use) an `include` can point to."""
    path = os.path.join(env.scratch_root(), "c19-include.xml")
    if not os.path.exists(path):
        with open(path + ".part", "w") as fh:
            fh.write(_INCLUDE_XML)
        os.replace(path + ".part", path)
    return "file://" + path


def family():
    P, S = _P, _S
    fam = collections.OrderedDict()
    fam["valid"] = docs.doc_of([S("s1", props=[P("p1"), P("p2", values=[1, 2], dtype="int")],
                                  secs=[S("s11", props=[P("q")])])], author="me")
    fam["warnings"] = docs.doc_of([S("s1", "n.s.", props=[P("p1", values=["1", "2"]),
                                                          P("p2", dependency="nope"),
                                                          P("p3", dependency="p1", dependency_value="1")]),
                                   S("s2", props=[P("p1", values=["2020-01-01"])])])
    fam["cards"] = docs.doc_of([S("s1", sec_cardinality=[2, 3], prop_cardinality=[None, 1],
                                  props=[P("p1", val_cardinality=[2, None]), P("p2", values=[1, 2, 3], dtype="int",
                                                                                val_cardinality=[None, 2])],
                                  secs=[S("s11", prop_cardinality=[1, None])])])
    fam["deep"] = docs.doc_of([S("s1", secs=[S("a", secs=[S("b", secs=[S("c", props=[P("p1")])])]),
                                             S("d", "n.s.")], props=[P("p1", values=[["1", "2"]], dtype="2-tuple")])])
    fam["errors"] = docs.doc_of([S("s1", props=[P("p1")], secs=[S("x", props=[P("p1")])]),
                                 S("s2", props=[P("p1")])])
    fam["empty"] = docs.doc_of([])
    # a document that names a terminology (not loadable: no network, the file does not exist)
    fam["repo"] = docs.doc_of([S("s1", "stim", props=[P("p1", values=["1", "2"]), P("p2")], secs=[S("s11", "n.s.")])],
                              repository="file:///nonexistent/odml-terminology.xml")
    # string Properties whose values look like values of other dtypes: of one kind, of several kinds (ties and
    # majorities), with and without a plain word among them
    L = LOOKALIKE
    fam["lookalikes"] = docs.doc_of([S("s1", props=[
        P("m1", values=[L["int"][0], L["float"][0]]), P("m2", values=[L["int"][0], L["boolean"][0]]),
        P("m3", values=[L["date"][0], L["int"][0]]), P("m4", values=L["int"] + ["3.5"]),
        P("m5", values=[L["int"][0], L["float"][0], L["string"][0]]), P("m6", values=L["int"] + L["float"]),
        P("u1", values=list(L["boolean"]))])])
    # documents in a state a validator might 'helpfully' complete: links and includes that are not resolved (yet),
    # with and without cardinalities; a link and an include that are resolved. The first Section is itself an
    # unresolved link (the cardinality events act on it). "detached" Sections are built without parent and
    # appended afterwards, "resolve" ones are resolved after the document is complete (see build_with_links).
    amp = lambda: S("amp", "hardware", definition="an amplifier", reference="ref-1",
                    props=[P("gain", values=[10], dtype="int"), P("model", values=["A1", "B2"])],
                    secs=[S("filter", "hardware/filter", props=[P("cutoff", values=[0.5], dtype="float")])])
    fam["links"] = docs.doc_of([
        S("l0", "hardware", link="/amp", props=[P("own")]),
        amp(),
        S("l1", "hardware", link="/amp", prop_cardinality=[3, None]),
        S("l2", "hardware", link="/amp", sec_cardinality=[1, None], detached=True),
        S("l4", "hardware", link="/amp", prop_cardinality=[1, None], resolve=True),
        S("i1", "hardware", include="@include@", prop_cardinality=[1, None], sec_cardinality=[1, None])])
    # further members of the class (short histories and the other-process layer only, see gen_cases): maxima that
    # resolving would violate, a link that leads nowhere, a link to a linking Section, links below the top level,
    # includes without cardinality and resolved
    fam["links-more"] = docs.doc_of([
        S("l3", "hardware", link="/amp", prop_cardinality=[None, 1], sec_cardinality=[None, 0], detached=True,
          props=[P("own")]),
        amp(),
        S("l5", "hardware", link="/missing", prop_cardinality=[1, None], sec_cardinality=[1, None]),
        S("l6", "hardware", link="/amp"),
        S("holder", secs=[S("inner", "hardware/filter", link="/amp/filter", prop_cardinality=[1, None]),
                          S("chain", "hardware", link="/l6", sec_cardinality=[1, 2], detached=True)]),
        S("i2", "hardware", include="@include@", detached=True),
        S("i3", "hardware", include="@include@", sec_cardinality=[1, None], resolve=True)])
    return fam


def cross_family():
    """The family of the other-process layer: the family of the histories and documents that would be too large
    there: every combination of look-alike kinds within one string Property."""
    fam = family()
    L, core = LOOKALIKE, LOOKALIKE_CORE
    single = [_P("one_%s" % k, values=[L[k][0]]) for k in L]
    same = [_P("same_%s" % k, values=list(L[k])) for k in L]
    pairs = [_P("pair_%s_%s" % (a, b), values=[L[a][0], L[b][0]]) for a, b in itertools.combinations(L, 2)]
    triples = [_P("tie3_%s_%s_%s" % c, values=[L[k][0] for k in c]) for c in itertools.combinations(core, 3)]
    major = [_P("major_%s_%s" % (a, b), values=L[a] + [L[b][0]]) for a, b in itertools.permutations(core, 2)]
    tie4 = [_P("tie4_%s_%s" % (a, b), values=L[a] + L[b]) for a, b in itertools.combinations(core, 2)]
    fam["lookalikes-all"] = docs.doc_of([_S("single", props=single), _S("same", props=same), _S("pairs", props=pairs),
                                         _S("triples", props=triples), _S("majorities", props=major),
                                         _S("ties", props=tie4)])
    return fam


def fix_cards(spec):
    """cardinalities in the specs are lists (JSON); the library wants tuples"""
    def rec(lst):
        for s in lst:
            for k, v in list(s["attrs"].items()):
                if k.endswith("cardinality"):
                    s["attrs"][k] = {"tuple": v}
            for p in s["properties"]:
                for k, v in list(p["attrs"].items()):
                    if k.endswith("cardinality"):
                        p["attrs"][k] = {"tuple": v}
            rec(s["sections"])
    rec(spec["sections"])
    return spec


_FAM = None


def build_with_links(spec):
    """docs.build for specs whose Sections carry the markers `detached` (built without parent, appended when
    complete: a link / include given to the constructor stays unresolved either way, this is the other route to
    that state), `resolve` (link / include resolved through merge() once the document is complete) and the include
    place holder."""
    import odml
    later = []

    def rec(specs, parent):
        for s in specs:
            attrs = dict(s["attrs"])
            detached, resolve = attrs.pop("detached", False), attrs.pop("resolve", False)
            if attrs.get("include") == "@include@":
                attrs["include"] = include_url()
            kw = {k: docs.dec(v) for k, v in attrs.items()}
            sec = odml.Section(name=s["name"], type=s["type"], parent=None if detached else parent, **kw)
            for p in s["properties"]:
                docs.build_property(p, sec)
            rec(s["sections"], sec)
            if detached:
                parent.append(sec)
            if resolve:
                later.append(sec)

    d = odml.Document(**{k: docs.dec(v) for k, v in spec["attrs"].items()})
    rec(spec["sections"], d)
    for sec in later:
        sec.merge()
        if not sec.is_merged:
            raise env.HarnessError("the link / include of %r could not be resolved while building" % sec.name)
    return d


def build(name):
    global _FAM
    if _FAM is None:
        _FAM = {k: fix_cards(v) for k, v in cross_family().items()}
    import odml
    if name.startswith("links"):
        d = build_with_links(_FAM[name])
    else:
        d = docs.build(_FAM[name])
    if name == "errors":
        secs = list(list.__iter__(d.sections))
        secs[1].new_id(secs[0].id)
        sub = list(list.__iter__(secs[0].sections))[0]
        list(list.__iter__(sub.properties))[0].new_id(list(list.__iter__(secs[0].properties))[0].id)
        secs[1]._type = None
        odml.Section(name="y", type="t", parent=secs[0])
        list(list.__iter__(secs[0].sections))[1]._name = "x"
    return d


# --------------------------------------------------------------------------- events

VALIDATIONS = ["V:doc", "V:doc.validate", "V:sec", "V:prop", "V:report", "V:rerun"]
CUSTOMS = ["C:%s:%s" % (k, r) for k in ("odML", "section", "property") for r in ("R1", "R2")] + \
          ["C:section:R1:report", "C:section+property:R1+R2", "C:section:R2:on-section", "C:property:R1:on-property",
           "C:section:R1:reset-only", "C:property:R2:reset-only"]
EDITS = ["E:append-value", "E:setitem-value", "E:section-attached", "E:section-detached", "E:property-attached", "E:property-detached",
         "E:section-with-cardinality", "E:property-with-cardinality",
         "E:linked-section-appended", "E:lookalike-property-attached",
         "K:sec_cardinality", "K:prop_cardinality", "K:val_cardinality", "K:set_values_cardinality"]
IO = ["S:XML", "S:JSON", "S:YAML", "L:XML", "L:JSON", "L:YAML"]
ALPHABET = VALIDATIONS + CUSTOMS + EDITS + IO
REDUCED = ["V:doc", "V:sec", "V:prop", "V:report", "V:doc.validate", "E:append-value", "C:section:R1", "C:property:R2", "C:odML:R1", "C:section+property:R1+R2",
           "C:section:R1:reset-only",
           "E:section-attached", "E:property-attached", "E:property-with-cardinality", "K:prop_cardinality",
           "K:val_cardinality", "S:XML", "L:JSON", "L:YAML"]


class World(object):
    """The objects a history acts on."""

    def __init__(self, name, scratch):
        self.name = name
        self.scratch = scratch
        self.doc = build(name)
        self.extra = []            # detached objects created by events
        self.customs = []          # (Validation instance, {class key: [tags]}, root object)
        self.defaults = []         # (default Validation instance, root object)
        self.loaded = []
        self.n = 0

    def first_section(self):
        secs = tree.children(self.doc)[0]
        return secs[0] if secs else None

    def first_property(self):
        s = self.first_section()
        if s is None:
            return None
        ps = tree.children(s)[1]
        return ps[0] if ps else None

    def watched(self):
        return [self.doc] + self.extra + self.loaded


def subtree(root):
    """root and everything below it, pre-order, by identity (no parent pointers followed)."""
    out = [root]
    secs, props = tree.children(root)
    for p in props:
        out.append(p)
    for c in secs:
        out.extend(subtree(c))
    return out


def merged_state(root):
    """Link / include state of every Section below root: resolved or not, and with which object."""
    from odml.section import BaseSection
    out = []
    for o in subtree(root):
        if isinstance(o, BaseSection):
            try:
                m = o.get_merged_equivalent()
                out.append([bool(o.is_merged), None if m is None else id(m), bool(o.can_be_merged)])
            except Exception as exc:
                out.append(["<raises>", type(exc).__name__])
    return out


def snap_obj(o):
    """What a validation must leave as it is: attributes (link and include among them), values, children by
    content and identity (mc.snapshot), and the resolved / unresolved state of links and includes."""
    s = snapshot.snap(o, identity=True)
    return {"content": s, "merged": merged_state(o)}


def snap_world(w):
    return [snap_obj(o) for o in w.watched()]


def is_validation_event(ev):
    return ev[0] in "VC"


def issues_of(v, roots):
    """Multiset of (object position, issue id, rank, message) of a Validation instance."""
    index = {}
    for ri, r in enumerate(roots):
        for j, o in enumerate(subtree(r)):
            index.setdefault(id(o), "%d.%d" % (ri, j))
    out = collections.Counter()
    for e in v.errors:
        vid = getattr(e.validation_id, "name", repr(e.validation_id))
        out[(index.get(id(e.obj), "<foreign object>"), vid, e.rank, UUID_RE.sub("<id>", str(e.msg)))] += 1
    return out


def expected_marker_issues(root, reg):
    """What a reset=True instance with marker rules `reg` ({class key: [tags]}) must report for root."""
    from odml.doc import BaseDocument
    from odml.section import BaseSection
    out = collections.Counter()
    objs = subtree(root)
    for j, o in enumerate(objs):
        if isinstance(o, BaseDocument):
            k = "odML"
        elif isinstance(o, BaseSection):
            k = "section"
        else:
            k = "property"
        for tag in reg.get(k, ()):
            out[("0.%d" % j, "custom_validation", "warning", "marker %s" % tag)] += 1
    return out


def apply_event(w, ev, judge):
    """Apply one event; when judge is set, return the list of (clause, detail) it violates."""
    import odml
    from odml.validation import Validation
    from odml.tools.odmlparser import ODMLWriter, ODMLReader
    from odml.tools.xmlparser import XMLWriter
    from odml.tools.dict_parser import DictWriter
    bad = []
    w.n += 1
    before = snap_world(w) if judge and is_validation_event(ev) else None
    kind = ev.split(":")
    outcome = "ok"
    try:
        if kind[0] == "V":
            root = {"V:sec": w.first_section(), "V:prop": w.first_property()}.get(ev, w.doc)
            if root is not None:
                v = w.doc.validate() if ev == "V:doc.validate" else Validation(root)
                text = None
                if ev == "V:report":
                    text = v.report()
                elif ev == "V:rerun":
                    v.run_validation()
                w.defaults.append((v, root))
                if judge:
                    fresh = Validation(root)
                    got, want = issues_of(v, [root]), issues_of(fresh, [root])
                    if got != want:
                        bad.append(("validating-twice-gives-different-issues", describe_delta(got, want)))
                    if text is not None and text != fresh.report():
                        bad.append(("validating-twice-gives-different-issues", {"report": text}))
        elif kind[0] == "C":
            keys = kind[1].split("+")
            tags = kind[2].split("+")
            mode = kind[3] if len(kind) > 3 else "run"
            root = w.doc
            if mode == "on-section":
                root = w.first_section() or w.doc
            elif mode == "on-property":
                root = w.first_property() or w.doc
            if mode == "reset-only":
                v = Validation(root, reset=True)          # the documented form
            else:
                v = Validation(root, validate=False, reset=True)   # the form the library itself uses
            reg = {}
            for k, t in zip(keys, tags):
                v.register_custom_handler(k, R[t])
                reg.setdefault(k, []).append(t)
            if mode == "report":
                v.report()
            else:
                v.run_validation()
            w.customs.append((v, reg, root))
            if judge:
                got, want = issues_of(v, [root]), expected_marker_issues(root, reg)
                if got != want:
                    bad.append(("custom-instance-does-not-report-exactly-its-own-rules", describe_delta(got, want)))
        elif ev == "E:append-value":
            # in-place value edits (no setter of the whole list involved)
            p = w.first_property()
            if p is not None:
                if p.dtype and p.dtype.endswith("-tuple"):
                    p.append("(" + ";".join("5" for _ in range(int(p.dtype[:-6]))) + ")")
                else:
                    p.append("x" if p.dtype in ("string", "text") else p.values[0] if p.values else 1)
        elif ev == "E:setitem-value":
            p = w.first_property()
            if p is not None and len(p.values):
                if not (p.dtype and p.dtype.endswith("-tuple")):
                    p[0] = "2020-01-02" if p.dtype in ("string", "text") else p.values[-1]
        elif ev == "E:section-attached":
            odml.Section(name="new%d" % w.n, type="t", parent=w.first_section() or w.doc)
        elif ev == "E:section-detached":
            w.extra.append(odml.Section(name="new%d" % w.n, type="n.s."))
        elif ev == "E:property-attached":
            s = w.first_section()
            if s is not None:
                odml.Property(name="new%d" % w.n, values=[1], parent=s)
        elif ev == "E:property-detached":
            w.extra.append(odml.Property(name="new%d" % w.n, values=["a", "b"]))
        elif ev == "E:section-with-cardinality":
            odml.Section(name="new%d" % w.n, type="t", parent=w.doc, sec_cardinality=(1, None), prop_cardinality=2)
        elif ev == "E:property-with-cardinality":
            w.extra.append(odml.Property(name="new%d" % w.n, values=[1], val_cardinality=(2, 3)))
        elif ev == "E:linked-section-appended":
            # a Section that links to the first Section and wants content: built on its own, appended afterwards,
            # which leaves the link unresolved
            first = w.first_section()
            sec = odml.Section(name="new%d" % w.n, type=first.type if first is not None else "t",
                               link=first.get_path() if first is not None else "/missing",
                               prop_cardinality=(1, None), sec_cardinality=(1, None))
            w.doc.append(sec)
        elif ev == "E:lookalike-property-attached":
            s = w.first_section()
            if s is not None:
                odml.Property(name="new%d" % w.n, values=[LOOKALIKE["int"][0], LOOKALIKE["float"][0]], dtype="string",
                              parent=s)
        elif ev == "K:sec_cardinality":
            s = w.first_section()
            if s is not None:
                s.sec_cardinality = (3, None)
        elif ev == "K:prop_cardinality":
            s = w.first_section()
            if s is not None:
                s.prop_cardinality = 1
        elif ev == "K:val_cardinality":
            p = w.first_property()
            if p is not None:
                p.val_cardinality = (3, 4)
        elif ev == "K:set_values_cardinality":
            p = w.first_property()
            if p is not None:
                p.set_values_cardinality(None, 1)
        elif kind[0] == "S":
            ODMLWriter(kind[1]).write_file(w.doc, os.path.join(w.scratch, "saved%d.%s" % (w.n, kind[1].lower())))
        elif kind[0] == "L":
            path = os.path.join(w.scratch, "family.%s" % kind[1].lower())
            if not os.path.exists(path):
                src = build("warnings")
                if kind[1] == "XML":
                    XMLWriter(src).write_file(path)
                else:
                    data = {"Document": DictWriter().to_dict(src), "odml-version": "1.1"}
                    with open(path, "w") as fh:
                        if kind[1] == "JSON":
                            json.dump(data, fh)
                        else:
                            import yaml
                            yaml.safe_dump(data, fh)
            w.loaded.append(ODMLReader(kind[1], show_warnings=False).from_file(path))
    except Exception as exc:
        outcome = type(exc).__name__
        from odml.tools.parser_utils import ParserException
        if not (kind[0] == "S" and isinstance(exc, ParserException)):
            # saving an invalid document is refused; every other event must not raise
            if judge:
                bad.append(("event-raises", "%s: %s" % (type(exc).__name__, exc)))
    if before is not None:
        after = snap_world(w)
        if after != before:
            df = snapshot.diff(before, after)
            bad.append(("validation-changed-the-validated-objects", snapshot.short(df)))
    return outcome, bad


def describe_delta(got, want):
    extra = sorted((got - want).elements())[:3]
    missing = sorted((want - got).elements())[:3]
    return {"unexpected": extra, "missing": missing}


def default_issues(w):
    from odml.validation import Validation
    roots = w.watched()
    out = collections.Counter()
    for i, r in enumerate(roots):
        v = Validation(r)
        for key, n in issues_of(v, [r]).items():
            out[(i,) + key] += n
    return out


def run_history(name, events, scratch, judge_last=True, only_edits=False):
    w = World(name, scratch)
    bad, outcome = [], "ok"
    for i, ev in enumerate(events):
        if only_edits and is_validation_event(ev):
            w.n += 1          # objects created later get the names they get in the full history
            continue
        judge = judge_last and i == len(events) - 1
        outcome, b = apply_event(w, ev, judge)
        bad.extend(b)
    return w, outcome, bad


def run_case(case):
    scratch = env.fresh_dir("c19")
    try:
        return _run(case, scratch)
    finally:
        restore_registry()
        env.drop_dir(scratch)


def _run(case, scratch):
    name, events = case["doc"], case["events"]
    fails = []

    def fail(clause, detail):
        last = events[-1]
        fails.append(report.failure("validator-histories", {
            "clause": clause, "last_event": last.split(":")[0] + ":" + last.split(":")[1],
            "history_kinds": sorted(set(e[0] for e in events[:-1]))}, case, observed=detail,
            explain="document %r, events %r: %s" % (name, events, snapshot.short(detail))))

    # twin: only the editing events, pristine registry -> what a default validation must report
    restore_registry()
    env.reset_globals(env.SEED)
    twin, _, _ = run_history(name, events, os.path.join(scratch), judge_last=False, only_edits=True)
    want = default_issues(twin)
    restore_registry()
    for f in os.listdir(scratch):
        os.unlink(os.path.join(scratch, f))
    env.reset_globals(env.SEED)
    w, outcome, bad = run_history(name, events, scratch)
    for clause, detail in bad:
        fail(clause, detail)
    delta = registry_delta()
    if delta:
        fail("default-rule-registry-changed", delta)
    snap_before = snap_world(w)
    got = default_issues(w)
    if any(k[2] == "custom_validation" for k in got):
        fail("custom-rule-shows-up-in-a-default-validation", sorted(k for k in got if k[2] == "custom_validation")[:3])
    elif got != want:
        fail("default-validation-differs-after-the-history", describe_delta(got, want))
    # what another process would see: the document written out and read back, validated afresh
    if name != "errors":
        try:
            from odml.tools.xmlparser import XMLWriter, XMLReader
            from odml.validation import Validation as _V
            text = str(XMLWriter(w.doc))
            fresh_doc = XMLReader(ignore_errors=True, show_warnings=False).from_string(text)
            live = issues_of(_V(w.doc), [w.doc])
            loaded = snap_obj(fresh_doc)
            fresh = issues_of(_V(fresh_doc), [fresh_doc])
            if live != fresh:
                fail("a-freshly-loaded-copy-validates-differently", describe_delta(live, fresh))
            # a document as the readers hand it over (links and includes not resolved) is left as it is, too
            after = snap_obj(fresh_doc)
            if after != loaded:
                fail("validation-changed-the-validated-objects",
                     {"freshly loaded copy": snapshot.short(snapshot.diff(loaded, after))})
        except Exception as exc:
            fail("event-raises", "writing / reloading the document for the fresh-copy comparison: %s: %s"
                 % (type(exc).__name__, exc))
    again = default_issues(w)
    if again != got:
        fail("validating-twice-gives-different-issues", describe_delta(again, got))
    if snap_world(w) != snap_before:
        fail("validation-changed-the-validated-objects", "default validation at the end of the history")
    # every private instance still reports exactly its own rules
    for v, reg, root in w.customs:
        try:
            v.run_validation()
            g, x = issues_of(v, [root]), expected_marker_issues(root, reg)
            if g != x:
                fail("custom-instance-does-not-report-exactly-its-own-rules", describe_delta(g, x))
                break
        except Exception as exc:
            fail("event-raises", "re-running a custom instance: %s: %s" % (type(exc).__name__, exc))
            break
    # a default instance that is run again reports what a fresh one reports
    from odml.validation import Validation
    for v, root in w.defaults:
        try:
            # report() "validates the registered object and returns a results report": after the edits of the history
            # it describes the objects as they are now
            text = v.report()
            g, x = issues_of(v, [root]), issues_of(Validation(root), [root])
            if g != x or text != Validation(root).report():
                fail("validating-twice-gives-different-issues", dict(describe_delta(g, x), via="report() of an instance that ran before"))
                break
            v.run_validation()
            g, x = issues_of(v, [root]), issues_of(Validation(root), [root])
            if g != x:
                fail("validating-twice-gives-different-issues", describe_delta(g, x))
                break
        except Exception as exc:
            fail("event-raises", "re-running a default instance: %s: %s" % (type(exc).__name__, exc))
            break
    delta = registry_delta()
    if delta and not any(f["desc"]["clause"] == "default-rule-registry-changed" for f in fails):
        fail("default-rule-registry-changed", delta)
    nontrivial = (not is_validation_event(events[-1])) or sum(got.values()) > 0
    return {"failures": fails, "outcomes": ["%s:%s" % (events[-1].split(":")[0], outcome)],
            "nontrivial": int(nontrivial), "execs": 2, "states": 1}


# --------------------------------------------------------------------------- other processes

CHILD = r"""
import sys, json, os
sys.path.insert(0, %(verif)r)
os.environ["VERIF_REPO"] = %(repo)r
from mc import env
env.install(silence=False)
sys.stdout = env.NULL
from checks import c19
from odml.tools.odmlparser import ODMLReader
out = {}
for name, fmt in %(files)r:
    path = os.path.join(%(dir)r, name + "." + fmt.lower())
    doc = ODMLReader(fmt, show_warnings=False).from_file(path)
    w = type("W", (), {"watched": lambda self: [doc]})()
    res = {}
    before = c19.snap_obj(doc)
    for rep in (0, 1):
        res[str(rep)] = sorted([list(map(str, k)), n] for k, n in c19.default_issues(w).items())
    after = c19.snap_obj(doc)
    res["changed"] = None if after == before else c19.snapshot.short(c19.snapshot.diff(before, after))
    out[name + "." + fmt] = res
env.say("RESULT" + json.dumps(out, sort_keys=True))
"""


def cross_process(run, tier):
    """The same saved documents validated in child processes with different hash seeds."""
    from odml.tools.xmlparser import XMLWriter
    from odml.tools.dict_parser import DictWriter
    scratch = env.fresh_dir("c19x")
    files = []
    try:
        for name in cross_family():
            if name == "errors":
                continue          # cannot be saved through the validating writers; XMLWriter below takes it
            d = build(name)
            XMLWriter(d).write_file(os.path.join(scratch, name + ".xml"))
            files.append((name, "XML"))
            data = {"Document": DictWriter().to_dict(d), "odml-version": "1.1"}
            with open(os.path.join(scratch, name + ".json"), "w") as fh:
                json.dump(data, fh)
            files.append((name, "JSON"))
        d = build("errors")
        # duplicate sibling names cannot be loaded back (the readers' concern, C16): keep the other errors
        list(list.__iter__(list(list.__iter__(d.sections))[0].sections))[1]._name = "y"
        XMLWriter(d).write_file(os.path.join(scratch, "errors.xml"))
        files.append(("errors", "XML"))
        # hash seeds: a fixed list; a verdict that hangs on the iteration order of a set of two strings shows both
        # of its faces within 8 seeds for all practical purposes (each of the many tied Properties of the family is
        # an independent trial)
        seeds = [str(i) for i in range(8)] if tier == "quick" else [str(i) for i in range(24)]
        procs = []
        for hs in seeds:
            code = CHILD % {"verif": env.VERIF, "repo": env.REPO, "files": files, "dir": scratch}
            e = dict(os.environ, PYTHONHASHSEED=hs, PYTHONDONTWRITEBYTECODE="1", VERIF_REPO=env.REPO)
            procs.append((hs, subprocess.Popen([sys.executable, "-c", code], stdout=subprocess.PIPE,
                                               stderr=subprocess.PIPE, text=True, env=e)))
        results = {}
        for hs, p in procs:
            o, err = p.communicate(timeout=300)
            m = [l for l in o.splitlines() if l.startswith("RESULT")]
            if p.returncode or not m:
                raise env.HarnessError("child process with hash seed %s failed (rc %s): %s %s" % (hs, p.returncode, o[-300:], err[-600:]))
            results[hs] = json.loads(m[0][6:])
        ref_seed = seeds[0]
        fails = []
        total = 0
        for fname in sorted(results[ref_seed]):
            base = results[ref_seed][fname]["0"]
            total += len(base)
            for hs in seeds:
                run.transitions += 1
                run.evaluations += 1
                if results[hs][fname]["changed"] is not None:
                    fails.append(report.failure("other-process", {
                        "clause": "validation-changed-the-validated-objects", "file": fname},
                        {"cross_process": True, "file": fname, "hash_seed": hs},
                        observed=results[hs][fname]["changed"]))
                for rep in ("0", "1"):
                    run.transitions += 1
                    run.evaluations += 1
                    # first validation: what the reference process reported; second one: what this process
                    # reported the first time
                    ref = results[ref_seed][fname]["0"] if rep == "0" else results[hs][fname]["0"]
                    if results[hs][fname][rep] != ref:
                        fails.append(report.failure("other-process", {
                            "clause": "another-process-reports-different-issues" if rep == "0"
                            else "validating-twice-gives-different-issues", "file": fname},
                            {"cross_process": True, "file": fname, "hash_seed": hs},
                            observed=[x for x in results[hs][fname][rep] if x not in ref][:4],
                            expected=[x for x in ref if x not in results[hs][fname][rep]][:4]))
        run.add_failures(fails)
        run.nontrivial += 1 if total else 0
        run.layer("other-process", files=len(files), child_processes=len(seeds), issues_in_reference=total)
    finally:
        env.drop_dir(scratch)


# --------------------------------------------------------------------------- driver

def gen_cases(tier):
    names = list(family())
    cases = []
    if tier == "quick":
        plan = [(1, ALPHABET, names), (2, ALPHABET, names), (3, REDUCED, [n for n in names if n != "links-more"])]
    else:
        plan = [(1, ALPHABET, names), (2, ALPHABET, names), (3, ALPHABET, names),
                (4, REDUCED, ["warnings", "cards", "errors"])]
    seen = set()
    for depth, alpha, docs_ in plan:
        for name in docs_:
            for evs in itertools.product(alpha, repeat=depth):
                key = (name, evs)
                if key in seen:
                    continue
                seen.add(key)
                cases.append({"doc": name, "events": list(evs)})
    return cases, plan


def check(tier):
    base_registry()
    run = report.Run(PROP, tier, LEVEL, RULE % (len(ALPHABET), len(family())), assumptions=[
        "rules registered on an instance created WITHOUT reset=True are outside the statement and not in the alphabet",
        "issue collections are compared as multisets of (object position, issue id, rank, message with ids masked)",
        "saving an invalid document is refused with ParserException (C07); no other event may raise",
    ])
    cases, plan = gen_cases(tier)
    run.bounds = {"history_depth": [{"depth": d, "alphabet": len(a), "documents": len(n)} for d, a, n in plan]}
    run.layer("histories", cases=len(cases))
    par.run_cases(run, "checks.c19", cases, nchunks=par.JOBS * 16)
    cross_process(run, tier)
    return run.finish(reproduce=lambda f: replay(f))


def replay(rec):
    base_registry()
    case = rec["case"]
    if case.get("cross_process"):
        run = report.Run(PROP, "quick", LEVEL, "replay")
        cross_process(run, "quick")
        return list(run.classes.values())
    env.reset_globals(env.SEED)
    return run_case(case)["failures"]
