"""C20 - searches over exported RDF return exactly the matching objects.

Input engine: document sets whose attribute values come from a tiny pool (so hits, partial hits
and misses all occur) are exported without sub-classing; every query over <=2 (quick) / <=3
(thorough) attribute/value pairs of one kind and the multi-kind queries that relate kinds by direct
containment are run through FuzzyFinder in match mode (string and dictionary parameters) and in
fuzzy mode; searches by Property value (a pair ('value', [v1, v2, ...]): one Property must carry every
vi) are made in match mode on Properties with values of several dtypes; the textual output is parsed
and compared, combination by combination, with a reference evaluation on the source documents."""
import datetime as dt
import itertools
import re
import uuid

from gen import docs
from mc import env, par, report, snapshot
from ref import tree
from checks import rt

PROP = "C20"
LEVEL = "model_checking"
RULE = ("document sets (values from a two-letter pool; values with blanks at the ends; values carried by exactly one of two "
        "kinds that share the attribute; values of characters special to format strings, SPARQL, XML and regular "
        "expressions; Properties with values of the dtypes int, float, boolean, date, string) x every query of <=K "
        "attribute/value pairs of one kind (values "
        "present or absent) + multi-kind queries (also the same attribute = value asked of two kinds) + searches by Property "
        "value (one to three values: carried by one Property, by several, by two different ones, by none; alone and together "
        "with Property, Section and Document pairs; match mode) "
        "x {string, dictionary} parameters x {match, fuzzy}; every reported "
        "combination compared with a reference evaluation; non-trivial = a reported combination with at least one matching object")
WATCHDOG_S = 120

NS = "https://g-node.org/odml-rdf#"
PRED = {"Doc": {"author": "hasAuthor", "version": "hasDocVersion", "date": "hasDate", "id": "hasId"},
        "Sec": {"name": "hasName", "type": "hasType", "definition": "hasDefinition", "reference": "hasReference",
                "id": "hasId"},
        "Prop": {"name": "hasName", "dtype": "hasDtype", "unit": "hasUnit", "uncertainty": "hasUncertainty",
                 "definition": "hasDefinition", "reference": "hasReference", "value_origin": "hasValueOrigin",
                 "id": "hasId"}}
KIND_WORD = {"Doc": "doc", "Sec": "sec", "Prop": "prop"}
MISS_ID = "99999999-9999-4999-8999-999999999999"


# --------------------------------------------------------------------------- document sets

def doc_sets():
    """Each set: list of document specs.  Attribute values are drawn from {x, y} so that queries hit some
    objects and miss others."""
    S, P = rt.S, rt.P
    sets = []
    a = docs.doc_of([
        S("x", "x", definition="x", reference="y", props=[
            P("x", [1], "int", unit="x", uncertainty=0.5, definition="x", reference="x", value_origin="x"),
            P("y", ["a"], "string", unit="y", definition="y")],
          secs=[S("y", "x", definition="y", props=[P("x", ["b"], "string", unit="x")]),
                S("x", "y", reference="x", props=[P("y", [2], "int", unit="x", uncertainty=2)])]),
        S("y", "y", definition="x", props=[P("x", [3], "int", unit="y", value_origin="y")])],
        author="x", version="y", date={"date": "2020-01-02"})
    b = docs.doc_of([
        S("x", "y", definition="y", props=[P("x", ["c"], "string", unit="y", reference="y")]),
        S("y", "x", reference="y", secs=[S("x", "x", props=[P("y", [4], "int", uncertainty=0.5)])])],
        author="y", version="y", date={"date": "1999-12-31"})
    c = docs.doc_of([S("x", "x", props=[P("x", [5], "int", unit="x")])], author="x", version="x")
    sets.append([a])
    sets.append([a, b])
    sets.append([b, c])
    sets.append([c])
    sets.append([docs.doc_of([], author="x")])
    sets.append([a, b, c])
    # values with a blank at either end next to the same text without it, and attribute values that are not text
    # (Document(version=42) and Document(version=0.9) are how the library's own documentation writes them)
    e = docs.doc_of([
        S("x ", "x", definition=" x", props=[P("x", [1], "int", unit=" y"), P("x ", [2], "int", unit="y")]),
        S("x", "x ", definition="x", props=[P(" x", [3], "int", unit="y "), P("y", [4], "int", unit="y")]),
        S(" x", " x", props=[P("x", ["a"], "string")])],
        author="x ", version=42)
    f = docs.doc_of([S("x", "x", definition="x ", props=[P("x", [5], "int", unit="y")])], author="x", version="42")
    g = docs.doc_of([S("x", "x", props=[P("x ", [6], "int", unit=" y")])], author=" x", version=0.9)
    sets.append([e, f, g])
    # values that Sections and Properties share through equally named attributes (name, definition, reference) are
    # carried by exactly one of the two kinds here: a Section named x but no Property named x, a Property named y but
    # no Section named y, and the other way round for definition / reference (in the sets above both kinds carry them)
    h = docs.doc_of([S("x", "y", definition="x", reference="y", props=[
        P("y", [1], "int", unit="x", definition="y", reference="x")])], author="x", version="y")
    sets.append([h])
    # values made of characters that mean something to a layer the query text passes through (format strings,
    # SPARQL, regular expressions): one tiny Document per atom, the atoms rotated through the attributes
    sets.append(char_docs())
    # Properties with values of several dtypes for searches by value: a value carried by several Properties, two values
    # carried by one Property / by two different Properties, text that looks like a number, values of special characters
    sets.append(value_docs())
    return sets


# Characters that are special to Python format strings ({} and %), to SPARQL (variables, quotes, comments, IRIs),
# to XML and to regular expressions / glob patterns; s, p, d are the node variables of the generated queries.  All are
# free of , ( ) : and the double quote, as the statement requires.
CHAR_ATOMS = ["{", "}", "{}", "{node}", "{0}", "a}b", "s^{-1}", "%s", "%", "%d%%", "$x", "?x", "?s", "'", "x'y", "''",
              "#", "a#b", "<", ">", "<x>", "&", "&amp;", ".", ".*", "[x]", "^x", "x|y", "x+", "*", "s", "p", "d"]
# TODO baseline-defect: /repo puts the value unescaped into a SPARQL string literal - a value with a backslash, a line
# break or a carriage return makes prepareQuery raise (ParseException), an escape sequence written out (backslash + t,
# backslash + backslash, backslash + u0041) is compared as the character it denotes, and a tabulator is expanded to
# blanks by the SPARQL parser (no hit).  Reported; the atoms stay in the enumeration and are switched on again by
# setting SKIP_BASELINE_DEFECT_ATOMS to False once /repo escapes the value.
BASELINE_DEFECT_ATOMS = ["back\\slash", "\\", "x\\", "a\\tb", "a\\\\b", "a\\u0041b", "a\nb", "a\rb", "a\tb"]
SKIP_BASELINE_DEFECT_ATOMS = False       # repaired by fix 8517be1: the atoms are enumerated


def char_atoms():
    return CHAR_ATOMS + ([] if SKIP_BASELINE_DEFECT_ATOMS else BASELINE_DEFECT_ATOMS)


def char_docs():
    S, P = rt.S, rt.P
    A = char_atoms()
    at = lambda i: A[i % len(A)]
    return [docs.doc_of([S(at(i), at(i + 1), definition=at(i + 2), reference=at(i + 3), props=[
        P(at(i + 1), [i], "int", unit=at(i + 2), definition=at(i + 3), reference=at(i + 4), value_origin=at(i))])],
        author=at(i), version=at(i + 1)) for i in range(len(A))]


def char_queries(K, tier):
    """Queries for the document set of char_docs(): every atom is asked for, as a hit, in attributes of each kind."""
    A = char_atoms()
    at = lambda i: A[i % len(A)]
    single = {"Doc": ["author", "version"], "Sec": ["name", "type", "definition"], "Prop": ["name", "unit", "value_origin"]}
    if tier == "thorough":
        single = {"Doc": ["author", "version"], "Sec": ["name", "type", "definition", "reference"],
                  "Prop": ["name", "unit", "definition", "reference", "value_origin"]}
    queries = []
    for i in range(len(A)):
        for kind in ("Doc", "Sec", "Prop"):
            for a in single[kind]:
                queries.append([(kind, (a, at(i)))])
        queries.append([(("Doc", "Sec", "Prop")[i % 3], ("id", at(i)))])        # never an id: no hit, and no failure
        # two pairs of one kind: carried by one object (i, i+1) / by two different objects (i, i+2)
        queries.append([("Sec", ("name", at(i))), ("Sec", ("type", at(i + 1)))])
        queries.append([("Sec", ("name", at(i))), ("Sec", ("type", at(i + 2)))])
        queries.append([("Prop", ("name", at(i + 1))), ("Prop", ("unit", at(i + 2)))])
        queries.append([("Doc", ("author", at(i))), ("Doc", ("version", at(i + 1)))])
        if tier == "thorough":
            queries.append([("Prop", ("name", at(i + 1))), ("Prop", ("unit", at(i + 3)))])
            queries.append([("Doc", ("author", at(i))), ("Doc", ("version", at(i + 2)))])
            queries.append([("Sec", ("name", at(i))), ("Sec", ("type", at(i + 1))), ("Sec", ("definition", at(i + 2)))])
        # several kinds
        queries.append([("Sec", ("name", at(i))), ("Prop", ("name", at(i + 1)))])
        queries.append([("Doc", ("author", at(i))), ("Sec", ("name", at(i)))])
        queries.append([("Doc", ("author", at(i))), ("Sec", ("name", at(i))), ("Prop", ("unit", at(i + 2)))])
    return queries


def char_fuzzy(tier):
    A = char_atoms()
    at = lambda i: A[i % len(A)]
    out = []
    for i in range(len(A)):
        out.append(({"Sec": ["name"], "Prop": ["name"]}, [at(i)]))
        out.append(({"Sec": ["name", "type"]}, [at(i), at(i + 1)]))
        if tier == "thorough":
            out.append(({"Doc": ["author"], "Prop": ["unit", "value_origin"]}, [at(i), at(i + 2)]))
    return out


def value_docs():
    """Document set for searches by Property value.  20 is carried by five Properties (one of them as text), 25 by three;
    20 and 25 together by 'Contrast' of Section x in either Document (in either order); 20 and 30 only by two different
    Properties; the Properties t0, t1, ... of the first Document carry six special-character atoms each, u0, u1, ... of
    the second every other atom (lists of values are kept short: the generated query relates every requested value to
    every member of the list)."""
    S, P = rt.S, rt.P
    A = char_atoms()
    v1 = docs.doc_of([
        S("x", "x", props=[
            P("Contrast", [20, 25], "int", unit="%"),
            P("y", [20, -3], "int", unit="x"),
            P("x", [25, 30], "int", unit="%"),
            P("f", [1.5, 2.0, 1e-07], "float", unit="x"),
            P("b", [True, False], "boolean"),
            P("b1", [True], "boolean", unit="x"),
            P("d", [{"date": "2020-01-02"}, {"date": "1999-12-31"}], "date"),
            P("s", ["20", "a b", "true", "2020-01-02", " x"], "string", unit="%"),
            P("e", [], None, unit="%")]),
        S("y", "x", props=[
            P("Contrast", [20], "int", unit="%")] + [P("t%d" % (k // 6), A[k:k + 6], "string") for k in range(0, len(A), 6)])],
        author="x", version="x")
    v2 = docs.doc_of([
        S("x", "y", props=[
            P("Contrast", [25, 20, 20], "int", unit="mV"),
            P("f", [2.5], "float")] + [P("u%d" % (k // 12), A[k:k + 12:2], "string") for k in range(0, len(A), 12)],
          secs=[S("x", "x", props=[P("Contrast", [20, 25], "int", unit="%")])])],
        author="y", version="x")
    return [v1, v2]


def value_queries(tier):
    """Queries for value_docs(): a 'value' pair holds a list of values, all of which one Property must carry."""
    V = lambda *vals: ("Prop", ("value", list(vals)))
    queries = []
    # one value: hits of every dtype (a value that several Properties share among them), misses next to them
    for v in ["20", "25", "30", "-3", "1.5", "2.0", "1e-07", "2.5", "true", "false", "2020-01-02", "1999-12-31", "a b", " x",
              "21", "3", "0.5", "z", "x", "2001-01-01", "a", "b"]:
        queries.append([V(v)])
    # several values: carried by one Property / by two different Properties / one of them by none
    for vals in [("20", "25"), ("25", "20"), ("20", "30"), ("25", "30"), ("20", "21"), ("21", "20"), ("21", "22"), ("20", "20"),
                 ("20", "-3"), ("true", "false"), ("1.5", "2.0"), ("1.5", "2.5"), ("2020-01-02", "1999-12-31"),
                 ("2020-01-02", "2001-01-01"), ("20", "a b"), ("20", "true", "2020-01-02"), ("20", "25", "30"), ("1.5", "2.0", "1e-07")]:
        queries.append([V(*vals)])
    # together with other Property attributes (the value pair first, in the middle, last)
    for other in [("name", "Contrast"), ("name", "y"), ("name", "s"), ("unit", "%"), ("unit", "mV"), ("unit", "x"), ("dtype", "int"),
                  ("dtype", "string"), ("name", "z")]:
        queries.append([("Prop", other), V("20")])
        queries.append([V("20", "25"), ("Prop", other)])
    queries.append([("Prop", ("name", "Contrast")), V("20", "25"), ("Prop", ("unit", "%"))])
    queries.append([("Prop", ("name", "Contrast")), V("25"), ("Prop", ("unit", "mV"))])
    queries.append([("Prop", ("name", "x")), V("20"), ("Prop", ("unit", "%"))])
    queries.append([("Prop", ("name", "b1")), V("true")])
    queries.append([("Prop", ("name", "b1")), V("false")])
    queries.append([("Prop", ("unit", "%")), V("21")])
    queries.append([("Prop", ("unit", "%")), V("true")])
    # together with Section and Document pairs
    for sec in [("name", "x"), ("name", "y"), ("type", "x"), ("type", "y"), ("name", "z")]:
        queries.append([("Sec", sec), V("20")])
        queries.append([("Sec", sec), V("20", "25")])
    queries.append([("Sec", ("name", "x")), ("Sec", ("type", "x")), V("25")])
    queries.append([("Sec", ("name", "y")), ("Prop", ("name", "Contrast")), V("20")])
    queries.append([("Sec", ("name", "y")), ("Prop", ("name", "Contrast")), V("25")])
    queries.append([("Sec", ("name", "x")), ("Prop", ("name", "x")), V("30")])
    for d in [("author", "x"), ("author", "y"), ("version", "x")]:
        queries.append([("Doc", d), ("Sec", ("name", "x")), V("25", "20")])
        queries.append([("Doc", d), ("Sec", ("type", "x")), V("30")])
    queries.append([("Doc", ("author", "y")), ("Sec", ("name", "x")), ("Prop", ("unit", "mV")), V("20")])
    # values of special characters: each atom alone (carried by one or two Properties), two neighbours (one Property, or
    # two different ones), an atom together with a number (no Property)
    A = char_atoms()
    for i, a in enumerate(A):
        queries.append([V(a)])
        if tier == "thorough" or i % 3 == 0:
            queries.append([V(a, A[(i + 1) % len(A)])])
        if tier == "thorough" or i % 8 == 0:
            queries.append([V(a, "20")])
            queries.append([("Sec", ("name", "y")), V(a)])
    return queries


SPECIAL_SETS = (6, 8, 9)       # the sets above that come with their own query values


def special_queries(K, si=6, tier="quick"):
    if si == 8:
        return char_queries(K, tier)
    if si == 9:
        return value_queries(tier)
    values = {"author": ["x", "x ", " x"], "version": ["42", "0.9", "x"], "name": ["x", "x ", " x"], "type": ["x", "x ", " x"],
              "definition": ["x", "x ", " x"], "unit": ["y", "y ", " y"], "dtype": ["int"]}
    attrs = {"Doc": ["author", "version"], "Sec": ["name", "type", "definition"], "Prop": ["name", "unit", "dtype"]}
    queries = []
    for kind in ("Doc", "Sec", "Prop"):
        for n in range(1, K + 1):
            for sub in itertools.combinations(attrs[kind], n):
                for vals in itertools.product(*[values[a] for a in sub]):
                    queries.append([(kind, (a, v)) for a, v in zip(sub, vals)])
    for d in [("version", "42"), ("version", "0.9"), ("author", "x "), ("author", "x")]:
        for sec in [("name", "x"), ("name", "x "), ("type", " x")]:
            queries.append([("Doc", d), ("Sec", sec)])
    for sec in [("name", "x"), ("name", "x "), ("name", " x")]:
        for pr in [("name", "x"), ("name", "x "), ("unit", " y"), ("unit", "y")]:
            queries.append([("Sec", sec), ("Prop", pr)])
    for d in [("version", "42"), ("author", " x")]:
        for sec in [("name", "x"), ("name", "x ")]:
            for pr in [("name", "x "), ("unit", "y")]:
                queries.append([("Doc", d), ("Sec", sec), ("Prop", pr)])
    return queries


# --------------------------------------------------------------------------- reference evaluation

def text_of(v):
    """How a value is written in a query for the object to be 'carrying' it."""
    if v is None:
        return None
    return str(v)


def exported_text(x):
    """The text of a Property value in the RDF export (what STR() gives for the exported literal): booleans are written
    true / false, dates in ISO form, numbers the way Python prints them, text as it is."""
    if isinstance(x, bool):
        return "true" if x else "false"
    if isinstance(x, (dt.date, dt.time)):
        return x.isoformat()
    return str(x)


def carries(obj, attr, val):
    if attr == "id":
        return obj.id == val
    if attr == "value":
        # val: the requested values; the Property must carry every one of them
        have = set(exported_text(x) for x in obj.values)
        return all(str(v) in have for v in val)
    v = getattr(obj, attr)
    if v is None:
        return False
    if attr == "uncertainty":
        try:
            return float(v) == float(val)
        except ValueError:
            return False
    return text_of(v) == val


def evaluate(documents, combo):
    """combo: list of (kind, (attr, value)).  Returns the set of rows: tuples of node IRIs for the kinds
    in the query, in the order Doc, Sec, Prop."""
    by = {"Doc": [], "Sec": [], "Prop": []}
    for kind, pair in combo:
        by[kind].append(pair)
    kinds = [k for k in ("Doc", "Sec", "Prop") if by[k]]
    rows = set()
    all_secs = []
    for d in documents:
        todo = [d]
        while todo:
            c = todo.pop(0)
            for s in tree.children(c)[0]:
                all_secs.append(s)
                todo.append(s)
    iri = lambda o: NS + o.id
    ok = lambda o, kind: all(carries(o, a, v) for a, v in by[kind])
    if kinds == ["Doc"]:
        return set((iri(d),) for d in documents if ok(d, "Doc")), kinds
    if kinds == ["Sec"]:
        return set((iri(s),) for s in all_secs if ok(s, "Sec")), kinds
    if kinds == ["Prop"]:
        return set((iri(p),) for s in all_secs for p in tree.children(s)[1] if ok(p, "Prop")), kinds
    if kinds == ["Doc", "Sec"]:
        return set((iri(d), iri(s)) for d in documents if ok(d, "Doc") for s in tree.children(d)[0] if ok(s, "Sec")), kinds
    if kinds == ["Sec", "Prop"]:
        return set((iri(s), iri(p)) for s in all_secs if ok(s, "Sec") for p in tree.children(s)[1] if ok(p, "Prop")), kinds
    if kinds == ["Doc", "Sec", "Prop"]:
        return set((iri(d), iri(s), iri(p)) for d in documents if ok(d, "Doc") for s in tree.children(d)[0] if ok(s, "Sec")
                   for p in tree.children(s)[1] if ok(p, "Prop")), kinds
    return None, kinds          # Doc + Prop without Sec: not judged


def canon(pair):
    """A pair as it is identified in a combination: the values of a 'value' pair form a set."""
    kind, (a, v) = pair
    if a == "value":
        return (kind, (a, tuple(sorted(set(str(x) for x in v)))))
    return (kind, (a, v))


def combos_of(pairs):
    """All non-empty combinations of the given pairs, as frozensets."""
    out = []
    for n in range(1, len(pairs) + 1):
        for c in itertools.combinations(pairs, n):
            out.append(frozenset(c))
    return out


# --------------------------------------------------------------------------- parsing the finder's output

LINE = re.compile(r'^\?([dsp]) odml:(\w+) "(.*)" \.$')
BIND = re.compile(r'^\?([dsp]) odml:(\w+) \?(\w+) \.$')
FILT = re.compile(r'^FILTER\(STR\(\?(\w+)\) = "(.*)"\) \.$')
IDF = re.compile(r'^FILTER\(STRENDS\(STR\(\?([dsp])\), "#(.*)"\)\) \.$')
IDIRI = re.compile(r'^FILTER\(\?([dsp]) = <https://g-node\.org/odml-rdf#(.*)>\) \.$')
VALNODE = re.compile(r'^\?p odml:hasValue \?(\w+) \.$')
VALMEMBER = re.compile(r'^\?(\w+) (?:\?\w+|rdf:\w+) \?(\w+) \.$')
VALLIT = re.compile(r'^\?(\w+) (\?\w+|rdf:\w+) "(.*)" \.$')
ROWLABEL = {"Document": "d", "Section": "s", "Property": "p"}       # other labels (the node of the value list) are not judged


ESCAPES = {"t": "\t", "n": "\n", "r": "\r", "b": "\b", "f": "\f", '"': '"', "'": "'", "\\": "\\"}


def literal_text(s):
    """The text a SPARQL string literal written as *s* (between the quotes) denotes."""
    s = re.sub(r"\\u([0-9A-Fa-f]{4})|\\U([0-9A-Fa-f]{8})", lambda m: chr(int(m.group(1) or m.group(2), 16)), s)
    return re.sub(r"\\(.)", lambda m: ESCAPES.get(m.group(1), m.group(0)), s)


def parse_output(text):
    """-> list of (frozenset of (kind,(attr,value)), set of rows) in output order.  The combination a block
    belongs to is read off the query text the finder prints (plain triple patterns, or a variable
    plus a FILTER on its text, or a FILTER on the node IRI for ids; for a 'value' pair the node ?p odml:hasValue points
    to, and for each requested value either a member variable plus a FILTER on its text or a literal member)."""
    # the head of a printed query is whatever SELECT clause the library writes ('SELECT * WHERE {', 'SELECT DISTINCT ?d ?s
    # WHERE {'); the lines below it are read without their indentation
    blocks = re.split(r"SELECT\b[^\n{]*\{[ \t]*\n", text)
    out = []
    rev = {"d": "Doc", "s": "Sec", "p": "Prop"}
    for b in blocks[1:]:
        head, _, tail = b.rpartition("}\n") if False else b.partition("}\n")
        pairs = []
        bound = {}
        valnodes, valmembers, values = set(), set(), []
        for ln in head.splitlines():
            ln = ln.strip()
            m = VALNODE.match(ln)
            if m:
                valnodes.add(m.group(1))
                continue
            m = VALMEMBER.match(ln)
            if m and m.group(1) in valnodes:
                valmembers.add(m.group(2))
                continue
            m = VALLIT.match(ln)
            if m and m.group(1) in valnodes:
                if m.group(2) != "rdf:type":
                    values.append(literal_text(m.group(3)))
                continue
            m = FILT.match(ln)
            if m and m.group(1) in valmembers:
                values.append(literal_text(m.group(2)))
                continue
            m = LINE.match(ln)
            if m:
                kind = rev[m.group(1)]
                attr = [a for a, p in PRED[kind].items() if p == m.group(2)]
                pairs.append((kind, (attr[0] if attr else "?" + m.group(2), literal_text(m.group(3)))))
                continue
            m = BIND.match(ln)
            if m and m.group(2) in set(p for k in PRED.values() for p in k.values()):
                kind = rev[m.group(1)]
                attr = [a for a, p in PRED[kind].items() if p == m.group(2)]
                bound[m.group(3)] = (kind, attr[0] if attr else "?" + m.group(2))
                continue
            m = FILT.match(ln)
            if m and m.group(1) in bound:
                kind, attr = bound[m.group(1)]
                pairs.append((kind, (attr, literal_text(m.group(2)))))
                continue
            m = IDF.match(ln)
            if m:
                pairs.append((rev[m.group(1)], ("id", literal_text(m.group(2)))))
                continue
            m = IDIRI.match(ln)
            if m:
                pairs.append((rev[m.group(1)], ("id", m.group(2))))
        if valnodes:
            pairs.append(canon(("Prop", ("value", values))))
        kinds = sorted(set(k for k, _ in pairs), key=["Doc", "Sec", "Prop"].index)
        want_vars = [KINDVAR[k] for k in kinds]
        rows = set()
        cur = {}
        for ln in tail.splitlines():
            if not ln.strip():
                continue
            label, _, val = ln.partition(": ")
            var = ROWLABEL.get(label)
            if var is None:
                continue
            if var in cur:
                rows.add(tuple(cur.get(v) for v in want_vars))
                cur = {}
            cur[var] = val.strip()
        if cur:
            rows.add(tuple(cur.get(v) for v in want_vars))
        out.append((frozenset(pairs), rows))
    return out


KINDVAR = {"Doc": "d", "Sec": "s", "Prop": "p"}


# --------------------------------------------------------------------------- queries

def query_string(pairs):
    by = {}
    for kind, (a, v) in pairs:
        by.setdefault(kind, []).append("%s:%s" % (a, v) if a != "value" else "value:[%s]" % ", ".join(v))
    return " ".join("%s(%s)" % (KIND_WORD[k], ", ".join(by[k])) for k in ("Doc", "Sec", "Prop") if k in by)


def query_dict(pairs, native=False):
    """native: the values of a 'value' pair are passed as numbers / dates where their text is that of a number / date
    (the library's documentation writes ('value', [20, 25]))."""
    by = {}
    for kind, (a, v) in pairs:
        if a == "value":
            v = [native_of(x) if native else x for x in v]
        by.setdefault(kind, []).append((a, v))
    return by


def native_of(text):
    for conv in (int, float, lambda t: dt.datetime.strptime(t, "%Y-%m-%d").date()):
        try:
            n = conv(text)
        except ValueError:
            continue
        if str(n) == text:
            return n
    return text


def has_native(pairs):
    return any(a == "value" and any(native_of(x) != x for x in v) for _, (a, v) in pairs)


def gen_cases(tier):
    K = 2 if tier == "quick" else 3
    sets = doc_sets()
    values = {"author": ["x", "y", "z", "D. N. Adams"], "version": ["x", "y", "z"], "date": ["2020-01-02", "1999-12-31", "2001-01-01"],
              "name": ["x", "y", "z"], "type": ["x", "y", "z"], "definition": ["x", "y", "z"], "reference": ["x", "y", "z"],
              "dtype": ["int", "string", "float"], "unit": ["x", "y", "z"], "uncertainty": ["0.5", "2", "7"],
              "value_origin": ["x", "y", "z"], "id": ["<hit>", "<miss>", "<miss with blank>"]}
    queries = []
    for kind in ("Doc", "Sec", "Prop"):
        attrs = list(PRED[kind])
        for n in range(1, K + 1):
            for sub in itertools.combinations(attrs, n):
                for vals in itertools.product(*[values[a] for a in sub]):
                    queries.append([(kind, (a, v)) for a, v in zip(sub, vals)])
    # multi-kind
    small = {"Doc": [("author", "x"), ("author", "z"), ("version", "y")],
             "Sec": [("name", "x"), ("type", "y"), ("definition", "x"), ("name", "z")],
             "Prop": [("name", "x"), ("unit", "y"), ("dtype", "int"), ("name", "z")]}
    for d in small["Doc"]:
        for s in small["Sec"]:
            queries.append([("Doc", d), ("Sec", s)])
    for s in small["Sec"]:
        for p in small["Prop"]:
            queries.append([("Sec", s), ("Prop", p)])
    for d in small["Doc"][:2]:
        for s in small["Sec"][:3]:
            for p in small["Prop"][:3]:
                queries.append([("Doc", d), ("Sec", s), ("Prop", p)])
    # two pairs of one kind plus one of another
    queries.append([("Sec", ("name", "x")), ("Sec", ("type", "x")), ("Prop", ("name", "x"))])
    queries.append([("Sec", ("name", "x")), ("Prop", ("name", "x")), ("Prop", ("unit", "x"))])
    # the same attribute = value asked of two kinds at once (Sections and Properties share name, definition, reference
    # and id; Documents share id with both): in some document sets both kinds carry the value, in others exactly one
    # does - in either order - or none.  A third pair that has hits makes combinations without the hit-less pair
    queries += shared_queries()
    # searches by Property value on the same document sets (their Properties carry 1 .. 5 and a, b, c): one value, two
    # values (never carried by one Property there), with a Property / Section / Document pair; document set 9 has more
    V = lambda *vals: ("Prop", ("value", list(vals)))
    for v in ("1", "2", "a", "9"):
        queries.append([V(v)])
        queries.append([("Prop", ("name", "x")), V(v)])
        queries.append([("Sec", ("name", "x")), V(v)])
    queries.append([V("1", "2")])
    queries.append([V("1", "1")])
    queries.append([("Prop", ("unit", "x")), ("Prop", ("dtype", "int")), V("1")])
    queries.append([("Doc", ("author", "x")), ("Sec", ("name", "x")), V("1")])
    queries.append([("Doc", ("author", "x")), ("Sec", ("type", "y")), V("3")])
    fuzzy = [({"Sec": ["name"]}, ["x"]), ({"Sec": ["name", "type"]}, ["x", "y"]), ({"Prop": ["name", "unit"]}, ["x"]),
             ({"Doc": ["author"]}, ["x", "z"]), ({"Sec": ["name"], "Prop": ["name"]}, ["x"]),
             ({"Sec": ["type"], "Prop": ["unit"]}, ["x", "y"]), ({"Doc": ["author", "version"], "Sec": ["name"]}, ["y"]),
             ({"Prop": ["name", "unit", "definition"]}, ["x", "y"] if tier == "thorough" else ["y"]),
             ({"Sec": ["name"]}, ["z"]),
             ({"Sec": ["name"], "Prop": ["name"]}, ["y", "z"]), ({"Sec": ["reference"], "Prop": ["reference"]}, ["x", "y"]),
             ({"Sec": ["name", "definition"], "Prop": ["name", "definition"]}, ["x"]),
             ({"Doc": ["id"], "Sec": ["id"]}, ["<id:Sec>"]), ({"Doc": ["id"], "Sec": ["id", "name"]}, ["<id:Doc>", "x"]),
             ({"Sec": ["id"], "Prop": ["id"]}, ["<id:Prop>", "<id:Sec>"])]
    fuzzy_special = [({"Sec": ["name", "type"]}, ["x", "x "]), ({"Prop": ["name", "unit"]}, [" y", "x "]),
                     ({"Doc": ["author", "version"]}, ["42", " x"]), ({"Doc": ["version"], "Sec": ["name"]}, ["0.9", "x"])]
    cases = []
    for si in range(len(sets)):
        qs = special_queries(K, si, tier) if si in SPECIAL_SETS else queries
        for chunk in par.chunks(qs, 24 if tier == "quick" else 48):
            cases.append({"set": si, "queries": chunk, "fuzzy": []})
        fz = fuzzy if si not in SPECIAL_SETS else fuzzy_special if si == 6 else char_fuzzy(tier) if si == 8 else []
        for chunk in par.chunks(fz, 16):
            cases.append({"set": si, "queries": [], "fuzzy": chunk})
    return cases


def shared_queries():
    queries = []
    for attr in ("name", "definition", "reference"):
        for v in ("x", "y"):
            queries.append([("Sec", (attr, v)), ("Prop", (attr, v))])
            for w in ("x", "y"):
                queries.append([("Sec", (attr, v)), ("Sec", ("type", w)), ("Prop", (attr, v))])
                queries.append([("Sec", (attr, v)), ("Prop", (attr, v)), ("Prop", ("unit", w))])
    for a, b in (("Doc", "Sec"), ("Sec", "Prop")):
        for owner in (a, b):
            v = "<id:%s>" % owner
            queries.append([(a, ("id", v)), (b, ("id", v))])
            queries.append([(a, ("id", v)), (b, ("id", v)), (b, ("name", "x"))])
            if a == "Sec":
                queries.append([(a, ("id", v)), (a, ("name", "x")), (b, ("id", v))])
    queries.append([("Doc", ("id", "<id:Sec>")), ("Doc", ("author", "x")), ("Sec", ("id", "<id:Sec>"))])
    queries.append([("Doc", ("id", "<id:Doc>")), ("Doc", ("author", "x")), ("Sec", ("id", "<id:Doc>"))])
    return queries


def first_id(documents, kind):
    """The id of the first object of a kind (MISS_ID where the set has none)."""
    if kind == "Doc":
        return documents[0].id
    secs = tree.children(documents[0])[0]
    if not secs:
        return MISS_ID
    if kind == "Sec":
        return secs[0].id
    ps = tree.children(secs[0])[1]
    return ps[0].id if ps else MISS_ID


def fix_ids(documents, pairs):
    """'<hit>' / '<miss>' id placeholders -> real ids (the first object of the kind) / an unused id;
    '<id:Sec>' -> the id of the first Section whatever kind it is asked of (likewise Doc, Prop)."""
    out = []
    for kind, (a, v) in pairs:
        if a == "id":
            if v == "<hit>":
                v = first_id(documents, kind)
            elif v.startswith("<id:"):
                v = first_id(documents, v[4:-1])
            elif v == "<miss with blank>":
                v = "no such id"
            elif v == "<miss>":
                v = MISS_ID
        if a == "value":
            v = tuple(v)
        out.append((kind, (a, v)))
    return out


def run_case(case):
    from odml.tools.rdf_converter import RDFWriter
    from odml.rdf.fuzzy_finder import FuzzyFinder
    fails = []
    documents = [docs.build(s) for s in doc_sets()[case["set"]]]
    graph = RDFWriter(documents, rdf_subclassing=False).convert_to_rdf()
    execs = 0
    hits = 0

    current = {"queries": [], "fuzzy": []}

    def fail(clause, mode, style, pairs, observed=None, expected=None):
        nonlocal current
        kinds = sorted(set(k for k, _ in pairs))
        attrs = sorted(set(a for _, (a, _) in pairs))
        fails.append(report.failure("rdf-search", {
            "clause": clause, "mode": mode, "style": style, "kinds": kinds, "attrs": attrs, "n_pairs": len(pairs)},
            {"set": case["set"], "queries": current["queries"], "fuzzy": current["fuzzy"]},
            observed=observed, expected=expected))

    def judge(pairs, text, mode, style):
        nonlocal hits
        try:
            reported = parse_output(text)
        except Exception as exc:
            raise env.HarnessError("cannot parse the finder's output: %s" % exc)
        # same attribute on different kinds may legitimately appear in one combination
        expected = {}
        for combo in combos_of(pairs):
            # a combination that asks two different values of one attribute of one kind can never hit
            rows, kinds = evaluate(documents, list(combo))
            expected[frozenset(canon(p) for p in combo)] = rows
        seen = set()
        sizes = []
        for combo, rows in reported:
            sizes.append(len(combo))
            if combo not in expected:
                fail("reported-combination-is-not-a-combination-of-the-given-pairs", mode, style, pairs, sorted(map(str, combo)))
                continue
            seen.add(combo)
            want = expected[combo]
            if want is None:
                continue
            if not want:
                fail("combination-without-matching-object-reported", mode, style, pairs, sorted(rows)[:3])
            elif rows != want:
                extra, missing = sorted(rows - want)[:2], sorted(want - rows)[:2]
                fail("reported-rows-differ:%s" % ("object-lacking-a-value-returned" if extra else "matching-object-missing"),
                     mode, style, pairs, {"extra": extra, "missing": missing})
            if want:
                hits += 1
        for combo, want in expected.items():
            if want and combo not in seen:
                fail("combination-with-matching-objects-not-reported", mode, style, list(combo),
                     None, sorted(want)[:2])
        if sizes != sorted(sizes, reverse=True):
            fail("combinations-not-ordered-most-specific-first", mode, style, pairs, sizes)

    # the queries of a case run one after the other in one process, then once more in reverse order with string
    # parameters: a search must not depend on the searches that were made before it
    passes = [(q, ("string", "dict")) for q in case["queries"]] + [(q, ("string",)) for q in reversed(case["queries"])]
    for q, styles in passes:
        current = {"queries": [[[k, list(p)] for k, p in q] for q in case["queries"]], "fuzzy": []}
        pairs = fix_ids(documents, [(k, tuple(p)) for k, p in q])
        if "dict" in styles and has_native(pairs):
            styles = styles + ("dict-native",)
        for style in styles:
            try:
                if style == "string":
                    text = FuzzyFinder().find(mode="match", graph=graph, q_str=query_string(pairs))
                else:
                    text = FuzzyFinder().find(mode="match", graph=graph, q_params=query_dict(pairs, style == "dict-native"))
                execs += 1
            except Exception as exc:
                fail("search-raises", "match", style, pairs, "%s: %s" % (type(exc).__name__, str(exc)[:160]))
                continue
            judge(pairs, text, "match", style)
    # one finder object used on another graph first, then on this one: the graph given to find() is searched
    if case["queries"]:
        other_docs = [docs.build(sp) for sp in doc_sets()[(case["set"] + 1) % len(doc_sets())]]
        other_graph = RDFWriter(other_docs, rdf_subclassing=False).convert_to_rdf()
        for q in case["queries"][:4]:
            current = {"queries": [[[k, list(p)] for k, p in q]], "fuzzy": [], "reused_finder": True}
            pairs = fix_ids(documents, [(k, tuple(p)) for k, p in q])
            finder = FuzzyFinder()
            try:
                finder.find(mode="match", graph=other_graph, q_params=query_dict(pairs))
                text = finder.find(mode="match", graph=graph, q_params=query_dict(pairs))
                execs += 1
            except Exception as exc:
                fail("search-raises", "match", "dict-reused-finder", pairs, "%s: %s" % (type(exc).__name__, str(exc)[:160]))
                continue
            judge(pairs, text, "match", "dict-reused-finder")
    for sel, terms in case["fuzzy"]:
        current = {"queries": [], "fuzzy": [[sel, terms]]}
        terms = [first_id(documents, t[4:-1]) if t.startswith("<id:") and t[4:-1] in KIND_WORD else t for t in terms]
        pairs = [(k, (a, t)) for k in ("Doc", "Sec", "Prop") if k in sel for a in sel[k] for t in terms]
        for style in ("string", "dict"):
            if style == "string" and any(t != t.strip() for t in terms):
                continue        # 'HAVING a, b' separates terms by comma and blank: such a term has no string form
            try:
                if style == "string":
                    q = "FIND " + " ".join("%s(%s)" % (KIND_WORD[k], ", ".join(sel[k])) for k in ("Doc", "Sec", "Prop") if k in sel)
                    q += " HAVING " + ", ".join(terms)
                    text = FuzzyFinder().find(mode="fuzzy", graph=graph, q_str=q)
                else:
                    qp = dict((k, list(v)) for k, v in sel.items())
                    qp["Search"] = list(terms)
                    text = FuzzyFinder().find(mode="fuzzy", graph=graph, q_params=qp)
                execs += 1
            except Exception as exc:
                fail("search-raises", "fuzzy", style, pairs, "%s: %s" % (type(exc).__name__, str(exc)[:160]))
                continue
            judge(pairs, text, "fuzzy", style)
    return {"failures": fails, "outcomes": ["searched"], "nontrivial": hits, "execs": max(execs, 1),
            "states": len(case["queries"]) + len(case["fuzzy"])}


def check(tier):
    run = report.Run(PROP, tier, LEVEL, RULE, assumptions=[
        "documents are exported without Section sub-classing, values are free of , ( ) : and double quote (as the statement says)",
        "an object 'carries' a value when the text of its attribute equals the text given in the query (uncertainty: numeric equality)",
        "queries with Document and Property pairs but no Section pair are executed but not judged (kinds are related by direct "
        "containment only)",
        "a Property carries the values of a pair ('value', [v1, v2, ...]) when for every vi the text str(vi) equals the text of one "
        "of its values as exported to RDF (int and float as Python prints them, boolean as true / false, date in ISO form, "
        "text as it is): the pair takes part in the combinations of match mode as one pair (all its values or none), is "
        "written value:[v1, v2] in a query string, and is identified in the printed report by the member patterns of the "
        "node odml:hasValue points to (the order and repetition of the values do not matter; the 'Bag URI' line of a "
        "reported row is not judged)",
        "value searches leave out what the statement leaves open or excludes: requested texts that equal no exported text "
        "but denote the same number / truth value (2 for 2.0, True for true), values with , ( ) : or double quote (datetime, "
        "time, n-tuples), an empty list of values, two 'value' pairs in one query; in the dictionary way the values are "
        "passed as text and, where the text is that of an int, float or date, also as such an object (style dict-native)",
        "fuzzy mode has no notion of a value search ('value' is not among the attributes QueryParserFuzzy knows): "
        "none is enumerated there",
        "a combination that contains two different values for one attribute of one kind has no matching object and must not be reported",
        "fuzzy terms with a blank at either end are passed by dictionary only (the 'HAVING a, b' form separates by comma and blank)",
        "the value a printed query asks for is the text its SPARQL string literal denotes (escape sequences resolved)",
    ] + (["TODO baseline-defect: values with a backslash, line break, carriage return or tabulator are enumerated but "
          "switched off (SKIP_BASELINE_DEFECT_ATOMS): the unchanged tree puts them unescaped into the SPARQL literal"]
         if SKIP_BASELINE_DEFECT_ATOMS else []))
    cases = gen_cases(tier)
    run.bounds = {"pairs_per_kind": 2 if tier == "quick" else 3, "document_sets": len(doc_sets()),
                  "special_character_values": len(char_atoms()),
                  "values_per_value_search": 3, "value_searches": sum(
                      1 for c in cases for q in c["queries"] if any(p[0] == "value" for _, p in q))}
    run.layer("match+fuzzy", cases=len(cases), queries=sum(len(c["queries"]) + len(c["fuzzy"]) for c in cases))
    par.run_cases(run, "checks.c20", cases, nchunks=par.JOBS * 8)
    return run.finish(reproduce=lambda f: replay(f))


def replay(rec):
    env.reset_globals(env.SEED)
    case = rec["case"]
    case = {"set": case["set"], "queries": [[(k, tuple(p)) for k, p in q] for q in case["queries"]], "fuzzy": case.get("fuzzy", [])}
    return run_case(case)["failures"]
