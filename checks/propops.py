"""One-Property pool, value/dtype operation alphabet and canonical state (C05).

Same interface as checks.treeops so that mc.hist can drive it.  Values are addressed by atom
name (JSON-able); the table below maps names to the actual Python objects."""
import datetime as dt

from checks import treeops
from mc import env

D1 = dt.date(2020, 1, 2)
T1 = dt.time(1, 2, 3)
DT1 = dt.datetime(2020, 1, 2, 3, 4, 5)


def _gen():
    yield 1
    yield 2


ATOMS = [
    # native values of every type
    ("int", lambda: 1), ("int0", lambda: 0), ("neg", lambda: -7), ("big", lambda: 10 ** 20),
    ("float", lambda: 2.5), ("float0", lambda: 0.0), ("true", lambda: True), ("false", lambda: False),
    ("str", lambda: "a"), ("text", lambda: "a\nb"), ("date", lambda: D1), ("time", lambda: T1),
    ("datetime", lambda: DT1),
    ("time_us", lambda: dt.time(1, 2, 3, 456)), ("datetime_us", lambda: dt.datetime(2020, 1, 2, 3, 4, 5, 678)),
    # text forms
    ("s_int", lambda: "1"), ("s_float", lambda: "2.5"), ("s_true", lambda: "true"), ("s_T", lambda: "T"),
    ("s_date", lambda: "2020-01-02"), ("s_time", lambda: "01:02:03"),
    ("s_datetime", lambda: "2020-01-02 03:04:05"),
    # ISO 8601 spellings a lenient parser (datetime.fromisoformat) would take, with a fraction / an offset
    ("s_iso_frac", lambda: "2020-01-02T03:04:05.250000"),
    ("s_iso_offset", lambda: "2020-01-02T03:04:05+02:00"), ("s_time_frac", lambda: "01:02:03.5"),
    ("dt_tz", lambda: dt.datetime(2020, 1, 2, 3, 4, 5, tzinfo=dt.timezone.utc)),
    # near misses
    ("s_comma_float", lambda: "1,5"), ("s_baddate", lambda: "2020-13-01"), ("s_tru", lambda: "tru"),
    ("s_inf", lambda: "inf"), ("s_nan", lambda: "nan"), ("int2", lambda: 2), ("s_pad", lambda: " 7 "),
    # empties
    ("none", lambda: None), ("empty", lambda: ""), ("elist", lambda: []), ("edict", lambda: {}),
    # lists
    ("l_int", lambda: [1, 2]), ("l_mixed", lambda: [1, "a"]), ("l_mixed2", lambda: ["a", 1]),
    ("l_none", lambda: [1, None]), ("l_str", lambda: ["a", "b"]), ("l_sint", lambda: ["1", "2"]),
    ("l_empty_str", lambda: ["a", ""]),
    # bracketed strings
    ("s_brack", lambda: "[1, 2,3]"), ("s_brack1", lambda: "[a]"), ("s_brack0", lambda: "[]"),
    # tuple syntax
    ("s_tup2", lambda: "(1;2)"), ("s_tup3", lambda: "(1;2;3)"), ("s_tup_list", lambda: "[(1;2),(3;4)]"),
    ("l_tup2", lambda: ["(1;2)", "(3;4)"]), ("ll_int", lambda: [[1, 2]]),
    ("ll_str", lambda: [["1", "2"], ["3", "4"]]), ("l_tup_empty", lambda: ["(1;2)", ""]),
    ("s_tup_pad", lambda: "( 1 ; 2 )"),
    # lists in which one item fits an n-tuple type and another does not
    ("ll_mixed_len", lambda: [["1", "2"], ["1", "2", "3"]]), ("l_tup_mixed_len", lambda: ["(1;2)", "(1;2;3)"]),
    ("l_tup_then_int", lambda: ["(1;2)", 5]), ("l_tup_open", lambda: ["(1;2)", "(3"]),
    # other python types
    ("dict", lambda: {"k": 1}), ("tuple", lambda: (1, 2)), ("set", lambda: {5}), ("gen", _gen),
    ("dt_for_date", lambda: DT1), ("date_for_dt", lambda: D1), ("bytes", lambda: b"ab"),
]
ATOM = dict(ATOMS)
ATOM_NAMES = [n for n, _ in ATOMS]


def dtypes_alphabet():
    from odml.dtypes import DType
    names = [None, "string", "text", "int", "float", "url", "datetime", "date", "time", "boolean",
             "person", "2-tuple", "3-tuple", "str", "bool", "Int", "FLOAT", "Text", "2-Tuple", "foo", "0-tuple",
             ""]
    members = [("DType." + m.name) for m in DType]
    return names + members


def dtype_value(t):
    from odml.dtypes import DType
    if isinstance(t, str) and t.startswith("DType."):
        return getattr(DType, t[6:])
    return t


MERGE_SOURCES = [
    {"dtype": "int", "values": "l_int"}, {"dtype": "string", "values": "l_str"},
    {"dtype": "string", "values": "l_sint"}, {"dtype": "float", "values": "float"},
    {"dtype": "2-tuple", "values": "l_tup2"}, {"dtype": None, "values": "none"},
    {"dtype": "date", "values": "date"}, {"dtype": "boolean", "values": "true"},
]

VALUE_CAP = 4


def build_pool():
    import odml
    return [odml.Property(name="p")]


def absorb(pool):
    pass


def kind(o):
    return "P"


def apply_op(pool, op):
    import odml
    p = pool[0]
    name = op[0]
    try:
        if name == "ctor":
            pool[0] = odml.Property(name="p", values=ATOM[op[2]](), dtype=dtype_value(op[1]))
        elif name == "set_values":
            p.values = ATOM[op[1]]()
        elif name == "set_dtype":
            p.dtype = dtype_value(op[1])
        elif name == "append":
            p.append(ATOM[op[1]](), strict=op[2])
        elif name == "extend":
            p.extend(ATOM[op[1]](), strict=op[2])
        elif name == "insert":
            p.insert(op[1], ATOM[op[2]](), strict=op[3])
        elif name == "setitem":
            p[_index(p, op[1])] = ATOM[op[2]]()
        elif name == "remove":
            p.remove(ATOM[op[1]]())
        elif name == "merge":
            src = MERGE_SOURCES[op[1]]
            other = odml.Property(name="p", values=ATOM[src["values"]](), dtype=src["dtype"])
            p.merge(other, strict=op[2])
        elif name == "clone":
            pool[0] = p.clone()
        elif name == "reassign":
            p.values = p.values
        else:
            raise ValueError("unknown op %r" % (op,))
        return ("ok", None)
    except Exception as exc:
        return ("raise", env.exc_label(exc))


def _index(p, sym):
    n = len(p)
    return {"0": 0, "last": n - 1, "len": n, "-1": -1, "99": 99}[sym]


def materialise(history):
    pool = build_pool()
    for op in history:
        apply_op(pool, op)
    return pool


copy_pool = treeops.copy_pool


def observe(p):
    def ty(v):
        if isinstance(v, list):
            return ["list"] + [ty(x) for x in v]
        return [type(v).__name__, repr(v)]
    return [repr(p.dtype), type(p.dtype).__name__, [ty(v) for v in p.values]]


def canon_state(pool):
    return repr(observe(pool[0]))


def self_check_copy(history):
    from mc import env
    a = materialise(history)
    b = copy_pool(a)
    if canon_state(a) != canon_state(b) or a[0] is b[0] or a[0]._values is b[0]._values:
        raise env.HarnessError("copy_pool broken for Property")


def describe(pool, op, outcome, clause):
    p = pool[0]
    name = op[0]
    desc = {"op": name, "dtype": str(p.dtype) if p.dtype is not None else None,
            "n_values": min(len(p.values), 2),
            "outcome": outcome[0] if outcome[0] == "ok" else outcome[1], "clause": clause}
    if name == "ctor":
        desc["dtype"] = op[1]
        desc["atom"] = op[2]
        desc["n_values"] = 0
    elif name in ("set_values", "remove"):
        desc["atom"] = op[1]
    elif name in ("append", "extend"):
        desc["atom"] = op[1]
        desc["strict"] = op[2]
    elif name == "insert":
        desc["atom"] = op[2]
        desc["strict"] = op[3]
        desc["index"] = op[1]
    elif name == "setitem":
        desc["atom"] = op[2]
        desc["index"] = op[1]
    elif name == "set_dtype":
        desc["to"] = op[1]
    elif name == "merge":
        desc["source"] = MERGE_SOURCES[op[1]]
        desc["strict"] = op[2]
    return desc


def alphabet(pool, level="full", history=()):
    ops = []
    p = pool[0]
    n = len(p.values)
    atoms = ATOM_NAMES
    if not history:
        for t in dtypes_alphabet():
            for a in atoms:
                ops.append(["ctor", t, a])
    if level == "reduced":
        atoms = [a for a in ATOM_NAMES if a in (
            "int", "true", "float", "str", "s_int", "s_float", "s_true", "s_date", "date", "datetime",
            "time_us", "s_iso_frac", "s_iso_offset", "dt_tz", "none", "empty", "l_mixed", "l_none", "l_empty_str", "s_brack", "s_tup2",
            "s_tup3", "l_tup_empty", "ll_int", "ll_mixed_len", "l_tup_mixed_len", "dict", "set", "gen", "dt_for_date", "date_for_dt")]
    for a in atoms:
        ops.append(["set_values", a])
    for t in dtypes_alphabet():
        ops.append(["set_dtype", t])
    grow = n < VALUE_CAP
    for strict in (True, False):
        for a in atoms:
            if grow:
                ops.append(["append", a, strict])
                ops.append(["extend", a, strict])
                for i in ((0, 99) if level == "full" else (0,)):
                    ops.append(["insert", i, a, strict])
    for i in ("0", "last", "len", "-1", "99"):
        for a in atoms:
            ops.append(["setitem", i, a])
    for a in atoms:
        ops.append(["remove", a])
    for i in range(len(MERGE_SOURCES)):
        for strict in (True, False):
            if grow:
                ops.append(["merge", i, strict])
    ops.append(["clone"])
    ops.append(["reassign"])
    return ops
