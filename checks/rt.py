"""Shared document layers for the round-trip properties C01 (XML), C02 (JSON/YAML) and C10 (RDF).

A case is {"layer", "spec", "tags"}: spec is a gen/docs document spec, tags name the deviating
elements in the alphabet's own terms (dtype, atoms, attribute, cardinality shape)."""
import ast
import itertools
import uuid

from gen import docs

STR_DTYPES = [None, "string", "text", "url", "person"]
TYPED = ["int", "float", "boolean", "date", "time", "datetime", "2-tuple", "3-tuple"]
CARD_FORMS = [(None, 1), (None, 3), (1, None), (2, None), (0, 2), (1, 2), (1, 3), (1, 1), (2, 2), (3, 3),
              (2, 10), (9, 10), (10, 10), (None, 12), (11, None)]      # two-digit bounds: text order differs from numeric order


def P(name, values, dtype=None, **attrs):
    return {"name": name, "values": list(values), "dtype": dtype, "attrs": attrs}


def S(name, typ="t", secs=(), props=(), **attrs):
    return {"name": name, "type": typ, "sections": list(secs), "properties": list(props), "attrs": attrs}


def card(c):
    return {"tuple": list(c)}


# --------------------------------------------------------------------------- layers

def layer_values(tier, lookalikes=False, max_len=None):
    text_atoms = list(docs.TEXT_ATOMS) + (list(docs.LOOKALIKES) if lookalikes else [])
    L = max_len or 2
    for dtype in STR_DTYPES + TYPED:
        atoms = text_atoms if dtype in STR_DTYPES else docs.TYPED_ATOMS[dtype]
        for n in range(0, L + 1):
            for combo in itertools.product(atoms, repeat=n):
                yield {"layer": "V", "spec": docs.simple_doc(P("p", combo, dtype)),
                       "tags": {"dtype": dtype, "atoms": [repr(a) for a in combo], "n_values": n}}
    # long lists: positions with two digits (text order of indices differs from numeric order)
    longs = {"int": [7, 3, 11, 0, 5, 9, 2, 10, 8, 1, 6, 4], "string": ["v%d" % i for i in (7, 3, 11, 0, 5, 9, 2, 10, 8, 1, 6, 4)],
             "float": [i + 0.5 for i in (7, 3, 11, 0, 5, 9, 2, 10, 8, 1, 6, 4)],
             "2-tuple": [[str(i), str(i * i)] for i in (7, 3, 11, 0, 5, 9, 2, 10, 8, 1, 6, 4)]}
    for dtype, vals in longs.items():
        for n in (10, 12):
            yield {"layer": "V", "spec": docs.simple_doc(P("p", vals[:n], dtype)),
                   "tags": {"dtype": dtype, "atoms": [], "n_values": n}}
    # long text
    for dtype in ("string", "text", None):
        for a in docs.LONG_ATOMS:
            for combo in ([a], [a, "a"], ["a,b", a]):
                yield {"layer": "V", "spec": docs.simple_doc(P("p", combo, dtype)),
                       "tags": {"dtype": dtype, "atoms": [repr(x) for x in combo], "n_values": len(combo)}}
    if tier == "thorough":
        for combo in itertools.product(docs.CSV_SENSITIVE, repeat=3):
            yield {"layer": "V", "spec": docs.simple_doc(P("p", combo, "string")),
                   "tags": {"dtype": "string", "atoms": [repr(a) for a in combo], "n_values": 3}}
        for dtype in TYPED:
            for combo in itertools.product(docs.TYPED_ATOMS[dtype], repeat=3):
                yield {"layer": "V", "spec": docs.simple_doc(P("p", combo, dtype)),
                       "tags": {"dtype": dtype, "atoms": [repr(a) for a in combo], "n_values": 3}}


DOC_TEXT_ATTRS = ["author", "version", "repository"]
SEC_TEXT_ATTRS = ["name", "type", "definition", "reference", "repository"]
PROP_TEXT_ATTRS = ["name", "unit", "definition", "reference", "dependency", "dependency_value", "value_origin"]
UNCERTAINTIES = [0, 0.0, 0.5, 1e-7, "0.5", 3, -2.5, 0.000123456789012]


def attr_doc(kind, attr, value):
    spec = docs.doc_of([S("s", props=[P("p", ["x"], "string"), P("other", [1], "int")])])
    sec = spec["sections"][0]
    prop = sec["properties"][0]
    if kind == "document":
        spec["attrs"][attr] = value
    elif kind == "section":
        if attr in ("name", "type"):
            sec[attr] = value
        else:
            sec["attrs"][attr] = value
    else:
        if attr == "name":
            prop["name"] = value
        else:
            prop["attrs"][attr] = value
    return spec


def layer_attrs(tier, lookalikes=False):
    atoms = list(docs.TEXT_ATOMS) + (list(docs.LOOKALIKES) if lookalikes else [])
    for kind, attrs in (("document", DOC_TEXT_ATTRS), ("section", SEC_TEXT_ATTRS), ("property", PROP_TEXT_ATTRS)):
        for attr in attrs:
            for a in atoms:
                if attr == "type" and not a.strip():
                    continue          # a Section without type is not a valid document
                if attr == "name" and ("/" in a or not a.strip()):
                    continue          # an empty name falls back to the id: not a text round trip
                yield {"layer": "A", "spec": attr_doc(kind, attr, a),
                       "tags": {"element": kind, "attr": attr, "atoms": [repr(a)]}}
    for kind, attrs in (("document", DOC_TEXT_ATTRS), ("section", SEC_TEXT_ATTRS), ("property", PROP_TEXT_ATTRS)):
        for attr in attrs:
            for a in docs.LONG_ATOMS:
                if attr == "name" and "/" in a:
                    continue
                yield {"layer": "A", "spec": attr_doc(kind, attr, a),
                       "tags": {"element": kind, "attr": attr, "atoms": [repr(a)]}}
    # ids of other kinds than uuid4() makes
    for kind in ("document", "section", "property"):
        for oid in docs.ID_FORMS:
            spec = attr_doc(kind, "definition" if kind != "document" else "author", "x")
            tgt = spec if kind == "document" else (spec["sections"][0] if kind == "section" else
                                                   spec["sections"][0]["properties"][0])
            tgt["id"] = oid
            yield {"layer": "A", "spec": spec, "tags": {"element": kind, "attr": "id", "atoms": [repr(oid)]}}
    for d in ({"date": "2020-01-02"}, {"date": "1999-12-31"}, {"date": "0999-12-31"}):
        yield {"layer": "A", "spec": attr_doc("document", "date", d),
               "tags": {"element": "document", "attr": "date", "atoms": [repr(d)]}}
    # a dependency_value need not be text: the value 0 of an int Property, False of a boolean one
    for dv in (0, 0.0, False, 5, True):
        spec = attr_doc("property", "dependency_value", dv)
        spec["sections"][0]["properties"][0]["attrs"]["dependency"] = "other"
        yield {"layer": "A", "spec": spec, "tags": {"element": "property", "attr": "dependency_value", "atoms": [repr(dv)]}}
    # the dtype given as a member of the DType enumeration instead of its name
    for member, vals in (("int", [1, 2]), ("string", ["a"]), ("text", ["a\nb"]), ("float", [0.5]), ("boolean", [True]),
                         ("date", [{"date": "2020-01-02"}]), ("url", ["https://example.org"])):
        yield {"layer": "A", "spec": docs.simple_doc(P("p", vals, "DType." + member)),
               "tags": {"element": "property", "attr": "dtype", "atoms": [repr("DType." + member)]}}
    # a Document version need not be text: Document(version=42), Document(version=0.9), and the falsy 0
    for v in (42, 0.9, 0, 0.0):
        yield {"layer": "A", "spec": attr_doc("document", "version", v),
               "tags": {"element": "document", "attr": "version", "atoms": [repr(v)]}}
    for u in UNCERTAINTIES:
        spec = attr_doc("property", "uncertainty", u)
        spec["sections"][0]["properties"][0].update({"values": [1.5], "dtype": "float"})
        yield {"layer": "A", "spec": spec, "tags": {"element": "property", "attr": "uncertainty", "atoms": [repr(u)]}}
    # everything at once
    spec = docs.doc_of([S("s", "typ", definition="sdef", reference="sref", repository="https://example.org/sec_terms.xml",
                          props=[P("p", [1.5, 2.5], "float", unit="mV", uncertainty=0.25, definition="pdef",
                                   reference="pref", dependency="other", dependency_value="1", value_origin="file.dat"),
                                 P("other", [1], "int")])],
                       author="A. U. Thor", version="1.2", date={"date": "2020-01-02"}, repository="https://example.org/doc_terms.xml")
    yield {"layer": "A", "spec": spec, "tags": {"element": "all", "attr": "all", "atoms": []}}


def layer_cards(tier):
    for c in CARD_FORMS:
        spec = docs.doc_of([S("s", sec_cardinality=card(c), secs=[S("sub")], props=[P("p", ["x"], "string")])])
        yield {"layer": "K", "spec": spec, "tags": {"attr": "sec_cardinality", "cardinality": list(c)}}
        spec = docs.doc_of([S("s", prop_cardinality=card(c), secs=[S("sub")], props=[P("p", ["x"], "string")])])
        yield {"layer": "K", "spec": spec, "tags": {"attr": "prop_cardinality", "cardinality": list(c)}}
        spec = docs.doc_of([S("s", props=[P("p", ["x", "y"], "string", val_cardinality=card(c))])])
        yield {"layer": "K", "spec": spec, "tags": {"attr": "val_cardinality", "cardinality": list(c)}}
    spec = docs.doc_of([S("s", sec_cardinality=card((1, 2)), prop_cardinality=card((2, 2)),
                          secs=[S("sub", prop_cardinality=card((None, 1)))],
                          props=[P("p", ["x"], "string", val_cardinality=card((0, 1))), P("q", [1], "int")])])
    yield {"layer": "K", "spec": spec, "tags": {"attr": "all", "cardinality": "several"}}


PALETTE = [
    [],
    [P("p", ["x", "y"], "string", unit="u")],
    [P("n", [1, -7], "int"), P("f", [0.1], "float", uncertainty=0.5)],
]


def layer_trees(tier):
    nmax = 4 if tier == "quick" else 5
    for n in range(0, nmax + 1):
        for shape in docs.tree_shapes(n):
            secs = docs.name_forest(shape, props=lambda i: PALETTE[i % 3])
            yield {"layer": "T", "spec": docs.doc_of(secs), "tags": {"sections": n, "shape": repr(shape)}}


def layer_names(tier):
    """Names that coincide where they may: across kinds, across levels, up to case, as prefix of one another."""
    def doc(secs):
        return docs.doc_of(secs)
    cases = {
        "section-and-property-of-one-name": doc([S("s", secs=[S("x")], props=[P("x", ["v"], "string")])]),
        "section-and-property-of-one-name-property-first-elsewhere": doc([S("s", secs=[S("x", props=[P("x", [1], "int")])],
                                                                          props=[P("x", ["v"], "string"), P("y", [2], "int")])]),
        "child-named-like-its-parent": doc([S("x", secs=[S("x", secs=[S("x")], props=[P("x", ["v"], "string")])])]),
        "top-level-sections-and-nested-ones-share-names": doc([S("a", secs=[S("b")]), S("b", secs=[S("a")])]),
        "names-differing-in-case": doc([S("a", props=[P("p", ["v"], "string"), P("P", ["w"], "string")]), S("A")]),
        "name-that-is-a-prefix-of-its-sibling": doc([S("a", props=[P("p", [1], "int"), P("p-2", [2], "int")]), S("a-2"),
                                                     S("a-2-2")]),
        "property-named-like-an-attribute": doc([S("name", "type", props=[P("value", ["v"], "string"), P("type", ["w"], "string"),
                                                                          P("id", ["x"], "string"), P("section", ["y"], "string")],
                                                   secs=[S("property"), S("odML")])]),
        "numeric-looking-names": doc([S("1", props=[P("2", ["v"], "string"), P("2.0", ["w"], "string")]), S("01"), S("true")]),
    }
    for label, spec in cases.items():
        yield {"layer": "N", "spec": spec, "tags": {"element": "names", "where": label}}


def deviations(lookalikes=False):
    """Single-node deviations used by the mixed layer: (label, function(section spec))."""
    out = []
    atoms = ["a,b", 'a"b', "[a]", "", " a ", "a\nb", "<&>", "ä€"] + (["yes", "null", "1e3", "2020-01-01"] if lookalikes else [])
    for a in atoms:
        out.append(("value:%r" % a, lambda s, a=a: s["properties"].append(P("dv", ["k", a], "string"))))
        out.append(("single-value:%r" % a, lambda s, a=a: s["properties"].append(P("ds", [a], "string"))))
        out.append(("definition:%r" % a, lambda s, a=a: s["attrs"].__setitem__("definition", a)))
    for c in [(None, 2), (1, None), (1, 1), (0, 2)]:
        out.append(("sec_cardinality:%r" % (c,), lambda s, c=c: s["attrs"].__setitem__("sec_cardinality", card(c))))
        out.append(("val_cardinality:%r" % (c,),
                    lambda s, c=c: s["properties"].append(P("dc", ["x"], "string", val_cardinality=card(c)))))
    out.append(("uncertainty:0", lambda s: s["properties"].append(P("du", [1.0], "float", uncertainty=0))))
    out.append(("tuple", lambda s: s["properties"].append(P("dt", [["1", "2"], ["3", "4"]], "2-tuple"))))
    out.append(("datetime", lambda s: s["properties"].append(P("dd", [{"datetime": "2020-01-02 03:04:05"}], "datetime"))))
    out.append(("empty-property", lambda s: s["properties"].append(P("de", [], "int"))))
    return out


def layer_mixed(tier, lookalikes=False):
    devs = deviations(lookalikes)
    shapes = docs.tree_shapes(3)
    # quick: the two extreme shapes (three siblings; a chain); thorough: all five
    for shape in (shapes if tier == "thorough" else [shapes[0], shapes[-1]]):
        for (i, j) in itertools.combinations(range(3), 2):
            for (la, fa), (lb, fb) in itertools.product(devs, repeat=2):
                secs = docs.name_forest(shape, props=lambda k: [P("base", ["b"], "string")])
                flat = []

                def rec(lst):
                    for s in lst:
                        flat.append(s)
                        rec(s["sections"])
                rec(secs)
                fa(flat[i])
                fb(flat[j])
                yield {"layer": "M", "spec": docs.doc_of(secs),
                       "tags": {"shape": repr(shape), "deviations": sorted([la, lb]), "nodes": [i, j]}}
    if tier == "thorough":
        shape = shapes[0]
        for (la, fa), (lb, fb), (lc, fc) in itertools.product(devs[::3], repeat=3):
            secs = docs.name_forest(shape, props=lambda k: [P("base", ["b"], "string")])
            flat = []

            def rec(lst):
                for s in lst:
                    flat.append(s)
                    rec(s["sections"])
            rec(secs)
            fa(flat[0])
            fb(flat[1])
            fc(flat[2])
            yield {"layer": "M", "spec": docs.doc_of(secs),
                   "tags": {"shape": repr(shape), "deviations": sorted([la, lb, lc]), "nodes": [0, 1, 2]}}


def layer_unrepresentable():
    bad = docs.UNREPRESENTABLE
    yield {"layer": "U", "spec": docs.simple_doc(P("p", ["ok", bad], "string")), "tags": {"where": "value"}}
    yield {"layer": "U", "spec": docs.simple_doc(P("p", [bad], "string")), "tags": {"where": "single-value"}}
    yield {"layer": "U", "spec": attr_doc("section", "definition", bad), "tags": {"where": "section-attribute"}}
    yield {"layer": "U", "spec": attr_doc("property", "unit", bad), "tags": {"where": "property-attribute"}}
    yield {"layer": "U", "spec": attr_doc("document", "author", bad), "tags": {"where": "document-attribute"}}
    yield {"layer": "U", "spec": attr_doc("section", "name", bad), "tags": {"where": "section-name"}}
    yield {"layer": "U", "spec": attr_doc("property", "name", bad), "tags": {"where": "property-name"}}


def all_cases(tier, lookalikes=False):
    for gen in (layer_values(tier, lookalikes), layer_attrs(tier, lookalikes), layer_cards(tier), layer_trees(tier),
                layer_names(tier), layer_mixed(tier, lookalikes), layer_unrepresentable()):
        for c in gen:
            yield c


# --------------------------------------------------------------------------- helpers

def with_ids(spec):
    """Copy of spec in which every object carries a fixed, valid id."""
    n = [0]

    def nid():
        n[0] += 1
        return str(uuid.UUID(int=(0xabcd0000 << 96) | (0x4000 << 64) | (0x8000 << 48) | n[0]))

    def rs(s):
        out = dict(s, id=nid(), attrs=dict(s["attrs"]))
        out["properties"] = [dict(p, id=nid(), attrs=dict(p["attrs"])) for p in s["properties"]]
        out["sections"] = [rs(c) for c in s["sections"]]
        return out
    return {"attrs": dict(spec["attrs"]), "id": nid(), "sections": [rs(s) for s in spec["sections"]]}


def _strip_atom(a, empty_to_none):
    if isinstance(a, list) and len(a) == 2 and a[0] == "str" and isinstance(a[1], str):
        v = ast.literal_eval(a[1]).strip()
        if empty_to_none and v == "":
            return None
        return ["str", repr(v)]
    if isinstance(a, list) and a and a[0] in ("list", "tuple"):
        return [a[0]] + [_strip_atom(x, False) for x in a[1:]]
    return a


def _number(a):
    """An uncertainty is a number: 3, 3.0 and '3.0' denote the same one."""
    if isinstance(a, list) and len(a) == 2 and a[0] in ("int", "float", "str"):
        try:
            return ["number", repr(float(ast.literal_eval(a[1])))]
        except (ValueError, TypeError, SyntaxError):
            return _strip_atom(a, True)
    return a


def _as_text(a):
    """XML holds the text of a dependency_value only: 0, 0.0 and False are read back as '0', '0.0', 'False'."""
    if isinstance(a, list) and len(a) == 2 and a[0] in ("int", "float", "bool"):
        return _strip_atom(["str", repr(str(ast.literal_eval(a[1])))], True)
    return _strip_atom(a, True)


def normalise_trim(snap):
    """What the XML form keeps of a snapshot: surrounding whitespace of text is trimmed; a text attribute
    that is empty after trimming is indistinguishable from an unset one."""
    if isinstance(snap, dict):
        out = {}
        for k, v in snap.items():
            if k in ("sections", "properties"):
                out[k] = [normalise_trim(c) for c in v]
            elif k == "values":
                out[k] = [_strip_atom(a, False) for a in v] if isinstance(v, list) else v
            elif k in ("kind",):
                out[k] = v
            elif k == "uncertainty":
                out[k] = _number(v)
            elif k in ("dependency_value", "version"):
                # XML holds the text of these attributes only: a version 42 is read back as '42'
                out[k] = _as_text(v)
            else:
                out[k] = _strip_atom(v, True)
        return out
    return snap


def field_of(path):
    """last component of a snapshot diff path without its index: '/sections[0]/properties[1]/values[0][1]' -> 'values'"""
    import re
    last = path.rstrip("/").split("/")[-1] if path else ""
    return re.sub(r"\[\d+\]", "", last)


def features(atom_reprs):
    """Coarse description of text atoms (so that failure classes do not multiply with the alphabet)."""
    out = set()
    for r in atom_reprs:
        try:
            a = ast.literal_eval(r)
        except Exception:
            out.add("typed")
            continue
        if isinstance(a, list) and any(isinstance(x, str) and ("," in x or '"' in x) for x in a):
            out.add("tuple-element-with-comma-or-quote")
        if not isinstance(a, str):
            out.add(type(a).__name__)
            if isinstance(a, float) and float("%e" % a) != a:
                out.add("float-longer-than-7-digits")
            continue
        if a == "":
            out.add("empty")
            continue
        if a.strip() == "":
            out.add("blank")
            continue
        if a != a.strip():
            out.add("padded")
        n = len(out)
        if "," in a:
            out.add("comma")
        if '"' in a:
            out.add("dquote")
        if "'" in a:
            out.add("squote")
        if a.startswith("[") and a.endswith("]"):
            out.add("list-like")
        elif "[" in a or "]" in a:
            out.add("bracket")
        if "\n" in a:
            out.add("newline")
        if any(c in a for c in "<&>"):
            out.add("xml-meta")
        if any(ord(c) > 127 for c in a):
            out.add("non-ascii")
        if ";" in a or "(" in a:
            out.add("tuple-syntax")
        if "\\" in a:
            out.add("backslash")
        if a in docs.LOOKALIKES or a in ("1", "true"):
            out.add("lookalike")
        if len(out) == n:
            out.add("plain")
    return sorted(out)


def normalise_empty(snap):
    """An attribute holding the empty string is an unset attribute (the library's own setters say so for
    unit and uncertainty); values are left alone."""
    if isinstance(snap, dict):
        out = {}
        for k, v in snap.items():
            if k in ("sections", "properties"):
                out[k] = [normalise_empty(c) for c in v]
            elif k in ("values", "kind"):
                out[k] = v
            elif isinstance(v, list) and v == ["str", "''"]:
                out[k] = None
            else:
                out[k] = v
        return out
    return snap
