"""Pool of live objects, operation alphabet and canonical state for the history engine
(shared by C03, C04 and C06; DESIGN 2.3, 2.4, C03).

An operation is a JSON list; pool objects are addressed by index.  Non-object arguments are
written as {"lit": ...} so that an int index is never mistaken for a literal.
"""
import itertools

from mc import env
from ref import tree

VALID_ID = "1a2b3c4d-2222-4333-8444-5555555555ef"     # with hex letters, so that the upper-case spelling differs

POOL_SPEC = [
    ("D",), ("D",),
    ("S", "a", "t"), ("S", "b", "t"), ("S", "a", "u"), ("S", "b", "u"),
    ("P", "p", 1), ("P", "p", "x"), ("P", "q", 3),
]
D0, D1, S0, S1, S2, S3, P0, P1, P2 = range(9)

START_DETACHED = []
START_BUILT = [["append", D0, S0], ["append", S0, S2], ["append", S0, P0],
               ["append", D0, S1], ["append", S1, S3], ["append", S1, P1]]


def build_pool():
    import odml
    pool = []
    for spec in POOL_SPEC:
        if spec[0] == "D":
            pool.append(odml.Document())
        elif spec[0] == "S":
            pool.append(odml.Section(name=spec[1], type=spec[2]))
        else:
            pool.append(odml.Property(name=spec[1], values=[spec[2]]))
    return pool


def kind(o):
    D, S, P = tree._kinds()
    if isinstance(o, D):
        return "D"
    if isinstance(o, S):
        return "S"
    if isinstance(o, P):
        return "P"
    return "?"


def absorb(pool):
    """Append to the pool every object reachable from it that is not pooled yet."""
    have = set(id(o) for o in pool)
    for o in tree.closure(pool):
        if id(o) not in have:
            have.add(id(o))
            pool.append(o)


# --------------------------------------------------------------------------- applying

def _arg(pool, a):
    if isinstance(a, dict):
        v = a["lit"]
        if v == "<list>":
            return []
        if v == "<object>":
            return object()
        return v
    if a is None:
        return None
    return pool[a]


def apply_op(pool, op):
    """Apply one public operation.  Returns ("ok", repr-ish) or ("raise", ExcTypeName)."""
    import odml
    name = op[0]
    A = lambda i: _arg(pool, op[i])  # noqa: E731
    try:
        if name == "append":
            A(1).append(A(2))
        elif name == "insert":
            A(1).insert(op[2], A(3))
        elif name == "extend":
            A(1).extend([_arg(pool, x) for x in op[2]])
        elif name == "remove":
            A(1).remove(A(2))
        elif name == "set_parent":
            A(1).parent = A(2)
        elif name == "setitem_sec":
            A(1).sections[op[2]] = A(3)
        elif name == "setitem_prop":
            A(1).properties[op[2]] = A(3)
        elif name == "reorder":
            A(1).reorder(op[2])
        elif name == "rename":
            A(1).name = op[2]
        elif name == "create_section":
            pool.append(A(1).create_section(op[2], "t"))
        elif name == "create_property":
            pool.append(A(1).create_property(op[2], [5]))
        elif name == "new_section":
            kw = {k: _lit(v) for k, v in dict(op[3]).items()} if len(op) > 3 else {}
            pool.append(odml.Section(name=op[1], type="t", parent=A(2), **kw))
        elif name == "new_property":
            kw = {"values": [5]}
            kw.update({k: _lit(v) for k, v in dict(op[3]).items()} if len(op) > 3 else {})
            pool.append(odml.Property(name=op[1], parent=A(2), **kw))
        elif name == "new_document":
            kw = {k: _lit(v) for k, v in dict(op[1]).items()}
            pool.append(odml.Document(**kw))
        elif name == "append_clone":
            c = A(2).clone(keep_id=op[3])
            A(1).append(c)
        elif name == "merge":
            A(1).merge(A(2), strict=op[3])
        elif name == "set_link":
            A(1).link = op[2]
        elif name == "set_include":
            A(1).include = op[2]
        elif name == "new_linked":
            # the route the readers take: link stored on a detached Section, attached, finalized
            sec = odml.Section(name=op[1], type="t", link=op[2])
            pool.append(sec)
            A(3).append(sec)
            doc = sec.document
            if doc is not None:
                doc.finalize()
        elif name == "clean":
            A(1).clean()
        elif name == "finalize":
            A(1).finalize()
        elif name == "new_id":
            A(1).new_id(op[2])
        elif name == "new_id_of":
            # the id another pooled object carries, in another accepted spelling
            A(1).new_id(pool[op[2]].id.upper())
        elif name == "set_card":
            setattr(A(1), op[2], _lit(op[3]))
        elif name == "set_values":
            A(1).values = _lit(op[2])
        elif name == "set_dtype":
            A(1).dtype = op[2]
        elif name == "append_value":
            A(1).append(_lit(op[2]))
        else:
            raise ValueError("unknown op %r" % (op,))
        return ("ok", None)
    except Exception as exc:
        return ("raise", env.exc_label(exc))
    finally:
        absorb(pool)


def _lit(v):
    if isinstance(v, dict) and "tuple" in v:
        return tuple(v["tuple"])
    return v


def materialise(history):
    """Fresh pool with `history` replayed on it through the public API."""
    pool = build_pool()
    for op in history:
        apply_op(pool, op)
    return pool


# --------------------------------------------------------------------------- copying

def copy_pool(pool):
    """Structural copy of every pooled object (fast alternative to replaying the history).
    Generic over __dict__: odML objects are remapped, lists are rebuilt, the rest is shared
    (immutable scalars).  `self_check_copy` validates it against the canonical form."""
    from odml.base import SmartList, BaseObject
    absorb(pool)
    m = {}
    for o in pool:
        m[id(o)] = object.__new__(type(o))

    def conv(v):
        if isinstance(v, BaseObject):
            if id(v) not in m:
                raise KeyError("object outside the pool")
            return m[id(v)]
        if isinstance(v, SmartList):
            nl = SmartList(v._content_type)
            list.extend(nl, [conv(x) for x in list.__iter__(v)])
            return nl
        if isinstance(v, list):
            return [conv(x) for x in v]
        if isinstance(v, tuple):
            return tuple(conv(x) for x in v)
        if isinstance(v, dict):
            return {k: conv(x) for k, x in v.items()}
        return v
    for o in pool:
        n = m[id(o)]
        for k, v in o.__dict__.items():
            n.__dict__[k] = conv(v)
    return [m[id(o)] for o in pool]


# --------------------------------------------------------------------------- canonical state

def canon_state(pool):
    """Canonical, hashable form of the pool state (DESIGN 2.3): structure by pool index,
    names, link/merge bookkeeping, values, cardinalities, and the equality pattern of ids."""
    idx = {id(o): i for i, o in enumerate(pool)}
    ids = {}
    out = []
    for o in pool:
        k = kind(o)
        secs, props = tree.children(o)
        try:
            oid = o.id
        except Exception:
            oid = "<raises>"
        idpat = ids.setdefault(oid, len(ids))
        try:
            import uuid as _u
            id_ok = isinstance(oid, str) and str(_u.UUID(oid)) == oid
        except Exception:
            id_ok = False
        ent = [k, idpat, id_ok]
        if k != "D":
            par = o.parent
            ent.append(idx.get(id(par), "ext") if par is not None else None)
            ent.append(o.name if isinstance(o.name, str) else repr(o.name))
        ent.append([idx.get(id(c), "ext") for c in secs])
        ent.append([idx.get(id(c), "ext") for c in props])
        if k == "S":
            mg = getattr(o, "_merged", None)
            ent += [o.link, o.include, idx.get(id(mg), "ext") if mg is not None else None,
                    repr(o.type), repr(o.definition), repr(o.reference),
                    repr(o.sec_cardinality), repr(o.prop_cardinality)]
        elif k == "P":
            mg = getattr(o, "_merged", None)
            ent += [repr(o.dtype), repr(o.values), repr(o.val_cardinality),
                    idx.get(id(mg), "ext") if mg is not None else None]
        out.append(ent)
    return repr(out)


def self_check_copy(history):
    from mc import env
    a = materialise(history)
    b = copy_pool(a)
    if canon_state(a) != canon_state(b):
        raise env.HarnessError("copy_pool does not preserve the canonical state for %r" % (history,))
    if any(x is y for x, y in zip(a, b)):
        raise env.HarnessError("copy_pool shares an object")


# --------------------------------------------------------------------------- pre-state tags

def subtree_ids(o):
    out, todo = set(), [o]
    while todo and len(out) < 1000:
        c = todo.pop()
        if id(c) in out:
            continue
        out.add(id(c))
        secs, props = tree.children(c)
        todo.extend(secs)
        todo.extend(props)
    return out


def move_tags(pool, x, y, via="append"):
    """Tags of the pre-state for 'put object x into container y'."""
    tags = []
    if isinstance(x, dict) or isinstance(y, dict) or x is None or y is None:
        tags.append("non-object-argument")
        return tags
    X, Y = pool[x], pool[y]
    kx, ky = kind(X), kind(Y)
    if kx == "D" or ky == "P" or (kx == "P" and ky == "D"):
        tags.append("wrong-kind")
        return tags
    par = X.parent
    if par is None:
        tags.append("x-detached")
    elif par is Y:
        tags.append("x-attached-here")
    else:
        tags.append("x-attached-elsewhere")
    if X is Y:
        tags.append("dest-is-x")
    elif id(Y) in subtree_ids(X):
        tags.append("dest-in-subtree-of-x")
    secs, props = tree.children(Y)
    sib = secs if kx == "S" else props
    if any((c is not X) and c.name == X.name for c in sib):
        tags.append("name-clash-at-dest")
    return tags


def op_tags(pool, op):
    """Sorted tags describing the pre-state of `op` in the alphabet's own terms."""
    name = op[0]
    tags = []
    if name in ("append", "append_clone"):
        tags = move_tags(pool, op[2], op[1])
        if name == "append_clone" and "x-attached-here" in tags:
            tags = [t for t in tags if not t.startswith("x-attached")] + ["clone-of-child-of-dest"]
        if name == "append_clone":
            tags = [t for t in tags if not t.startswith("x-")]
            if isinstance(op[2], int) and isinstance(op[1], int) and kind(pool[op[2]]) in "SP" \
                    and kind(pool[op[1]]) in "DS":
                Y = pool[op[1]]
                X = pool[op[2]]
                secs, props = tree.children(Y)
                sib = secs if kind(X) == "S" else props
                if any(c.name == X.name for c in sib) and "name-clash-at-dest" not in tags:
                    tags.append("name-clash-at-dest")
    elif name == "insert":
        tags = move_tags(pool, op[3], op[1])
        tags.append("index-not-an-int" if not isinstance(op[2], int) else
                    "index-negative" if op[2] < 0 else ("index-beyond-end" if op[2] >= 50 else "index-in-range"))
    elif name == "set_parent":
        tags = move_tags(pool, op[1], op[2]) if op[2] is not None else ["to-none"]
        if op[2] is None and isinstance(op[1], int):
            tags.append("x-detached" if pool[op[1]].parent is None else "x-attached")
    elif name == "extend":
        seen = []
        for a in op[2]:
            tags += [t for t in move_tags(pool, a, op[1]) if t not in tags]
            if a in seen:
                tags.append("same-object-twice")
            seen.append(a)
        objs = [pool[a] for a in op[2] if isinstance(a, int)]
        for i, j in itertools.combinations(range(len(objs)), 2):
            if objs[i] is not objs[j] and kind(objs[i]) == kind(objs[j]) and \
                    kind(objs[i]) != "D" and objs[i].name == objs[j].name:
                tags.append("dup-name-inside-argument")
        tags.append("len-%d" % len(op[2]))
    elif name == "remove":
        if isinstance(op[2], int) and isinstance(op[1], int):
            X, Y = pool[op[2]], pool[op[1]]
            tags.append("x-is-child" if getattr(X, "parent", None) is Y else "x-is-not-child")
            if kind(X) == "D" or kind(Y) == "P":
                tags.append("wrong-kind")
        else:
            tags.append("non-object-argument")
    elif name in ("setitem_sec", "setitem_prop"):
        Y = pool[op[1]]
        secs, props = tree.children(Y)
        lst = secs if name == "setitem_sec" else props
        want = "S" if name == "setitem_sec" else "P"
        i = op[2]
        inrange = -len(lst) <= i < len(lst)
        tags.append("index-in-range" if inrange else "index-out-of-range")
        if isinstance(op[3], int):
            X = pool[op[3]]
            if kind(X) != want:
                tags.append("wrong-kind")
            else:
                par = X.parent
                tags.append("x-detached" if par is None else
                            ("x-attached-here" if par is Y else "x-attached-elsewhere"))
                if inrange and lst[i] is X:
                    tags.append("x-is-replaced-item")
                if X is Y:
                    tags.append("dest-is-x")
                elif id(Y) in subtree_ids(X):
                    tags.append("dest-in-subtree-of-x")
                repl = lst[i] if inrange else None
                if any((c is not X) and (c is not repl) and c.name == X.name for c in lst):
                    tags.append("name-clash-at-dest")
        else:
            tags.append("non-object-argument")
    elif name == "reorder":
        X = pool[op[1]]
        par = X.parent
        if par is None:
            tags.append("x-detached")
        else:
            secs, props = tree.children(par)
            n = len(secs if kind(X) == "S" else props)
            i = op[2]
            tags.append("index-not-an-int" if not isinstance(i, int) else
                        "index-negative" if i < 0 else ("index-beyond-end" if i >= n else "index-in-range"))
    elif name == "rename":
        X = pool[op[1]]
        n = op[2]
        if not n:
            tags.append("to-empty")
        elif n == X.name:
            tags.append("to-own-name")
        else:
            par = X.parent
            if par is not None:
                secs, props = tree.children(par)
                sib = secs if kind(X) == "S" else props
                if any(c is not X and c.name == n for c in sib):
                    tags.append("name-clash-at-dest")
            tags.append("x-attached" if par is not None else "x-detached")
    elif name in ("create_section", "create_property", "new_section", "new_property"):
        y = op[1] if name.startswith("create") else op[2]
        nm = op[2] if name.startswith("create") else op[1]
        want = "S" if "section" in name else "P"
        if isinstance(y, int):
            Y = pool[y]
            ky = kind(Y)
            if ky == "P" or (want == "P" and ky == "D"):
                tags.append("wrong-kind")
            else:
                secs, props = tree.children(Y)
                sib = secs if want == "S" else props
                if any(c.name == nm for c in sib):
                    tags.append("name-clash-at-dest")
        elif y is None:
            tags.append("no-parent")
        else:
            tags.append("non-object-argument")
        if len(op) > 3 and op[3]:
            tags += ["kw-" + k for k in sorted(dict(op[3]))]
    elif name == "merge":
        if isinstance(op[2], int):
            X, Y = pool[op[2]], pool[op[1]]
            if kind(X) != "S":
                tags.append("wrong-kind")
            else:
                if X is Y:
                    tags.append("dest-is-x")
                elif id(Y) in subtree_ids(X):
                    tags.append("dest-in-subtree-of-x")
                elif id(X) in subtree_ids(Y):
                    tags.append("x-in-subtree-of-dest")
        else:
            tags.append("non-object-argument")
        tags.append("strict" if op[3] else "lenient")
    elif name in ("set_link", "new_linked"):
        tags.append("path:" + str(op[2]))
        if name == "set_link":
            X = pool[op[1]]
            tags.append("x-attached" if X.parent is not None else "x-detached")
            if X.link is not None:
                tags.append("had-link")
    return sorted(set(tags))


def describe(pool, op, outcome, clause):
    def k(a):
        if isinstance(a, bool):
            return a
        if isinstance(a, int):
            return kind(pool[a]) if 0 <= a < len(pool) else "?"
        if isinstance(a, dict):
            return "lit:" + type(a["lit"]).__name__
        if isinstance(a, list):
            return [k(x) for x in a]
        return a
    name = op[0]
    if name == "insert":
        args = [k(op[1]), k(op[3])]
    elif name in ("setitem_sec", "setitem_prop"):
        args = [k(op[1]), k(op[3])]
    elif name in ("reorder", "rename", "set_link", "new_id"):
        args = [k(op[1])]
    elif name == "new_id_of":
        args = [k(op[1]), k(op[2])]
    elif name in ("new_section", "new_property"):
        args = [k(op[2])]
    elif name in ("create_section", "create_property"):
        args = [k(op[1])]
    elif name == "new_linked":
        args = [k(op[3])]
    elif name == "new_document":
        args = []
    elif name == "append_clone":
        args = [k(op[1]), k(op[2]), "keep_id" if op[3] else "new_id"]
    elif name == "merge":
        args = [k(op[1]), k(op[2])]
    elif name in ("set_card", "set_values", "set_dtype", "append_value"):
        args = [k(op[1])]
    else:
        args = [k(a) for a in op[1:]]
    desc = {"op": name, "args": args, "pre": op_tags(pool, op),
            "outcome": outcome[0] if outcome[0] == "ok" else outcome[1], "clause": clause}
    if isinstance(clause, str) and clause.startswith("changed:"):
        desc["fields"] = clause[len("changed:"):].split(",")       # as a list, for the known-findings matcher
    return desc


# --------------------------------------------------------------------------- alphabet

LIT_STR = {"lit": "x"}
LIT_LIST = {"lit": "<list>"}


def alphabet(pool, level="full", creations_left=2):
    """All operations applicable to the pool, simplest first.  `level`:
    'full' (every index / argument), 'reduced' (reduced index domain, fewer wrong-kind
    arguments), 'core' (structural core only: parent=, append, insert, remove, item
    assignment, reorder)."""
    n = len(pool)
    kinds = [kind(o) for o in pool]
    Ds = [i for i in range(n) if kinds[i] == "D"]
    Ss = [i for i in range(n) if kinds[i] == "S"]
    Ps = [i for i in range(n) if kinds[i] == "P"]
    cont = Ds + Ss
    movable = Ss + Ps
    full = level == "full"
    core = level == "core"
    ops = []
    wrongP = Ps[:1]          # one Property used as a wrong-kind container
    # parent assignment
    for x in movable:
        for y in [None] + cont + (wrongP if not core else []):
            ops.append(["set_parent", x, y])
        if full:
            ops.append(["set_parent", x, LIT_STR])
    # append
    for y in cont:
        for x in movable + (Ds[:1] if not core else []):
            ops.append(["append", y, x])
        if full:
            ops.append(["append", y, LIT_STR])
            ops.append(["append", y, LIT_LIST])
    # remove
    for y in cont:
        for x in movable:
            ops.append(["remove", y, x])
    # insert
    # 1.0: a position that is a number but not an int; -2 / -99: negative positions inside and beyond the list
    idxs = [0, 1, 99, -1, 1.0, -2, -99] if full else [0, -1]
    for y in cont:
        for i in idxs:
            for x in movable:
                ops.append(["insert", y, i, x])
        if full:
            ops.append(["insert", y, 0, LIT_STR])
            ops.append(["insert", y, 0, Ds[0]])
    # reorder
    for x in movable:
        for i in ([-1, 0, 1, 2, 99, 1.0, -2, -4, -99] if full else [-1, 0, 1]):
            ops.append(["reorder", x, i])
    # item assignment
    for y in cont:
        for i in ([0, 1, -1, 99, -99] if full else [0, 1]):
            for x in Ss + (Ps[:1] + Ds[1:2] if full else []):
                ops.append(["setitem_sec", y, i, x])
    for y in Ss:
        for i in ([0, 1, -1, 99, -99] if full else [0, 1]):
            for x in Ps + (Ss[:1] if full else []):
                ops.append(["setitem_prop", y, i, x])
    if core:
        return ops
    # extend
    for y in cont:
        for x in movable:
            ops.append(["extend", y, [x]])
        pairs = []
        for a, b in itertools.product(Ss[:4], repeat=2):
            pairs.append([a, b])
        for a, b in itertools.product(Ps[:3], repeat=2):
            pairs.append([a, b])
        if Ss and Ps:
            pairs += [[Ss[0], Ps[0]], [Ps[0], Ss[0]]]
        if full and Ss:
            pairs += [[Ss[0], Ds[0]], [Ss[0], LIT_STR]]
        if not full:
            pairs = [p for p in pairs if p[0] == p[1] or
                     (isinstance(p[1], int) and kinds[p[0]] == kinds[p[1]] and p[0] < p[1])]
        for p in pairs:
            ops.append(["extend", y, p])
        if full:
            ops.append(["extend", y, []])
    # rename
    for x in movable:
        for nm in (["a", "b", None, ""] if kinds[x] == "S" else ["p", "q", None, ""]):
            ops.append(["rename", x, nm])
    # creation (bounded number per history)
    if creations_left > 0:
        for y in cont:
            for nm in ["a", "b"] if full else ["a"]:
                ops.append(["create_section", y, nm])
        for y in Ss + Ds[:1]:
            for nm in ["p", "q"] if full else ["p"]:
                ops.append(["create_property", y, nm])
        for y in cont + wrongP + [LIT_STR]:
            ops.append(["new_section", "a", y])
        for y in cont + wrongP + [LIT_STR]:
            ops.append(["new_property", "p", y])
        for y in cont:
            for x in movable:
                for keep in (False, True):
                    ops.append(["append_clone", y, x, keep])
        for y in cont:
            for path in ["/a", "../a", "/zzz"]:
                ops.append(["new_linked", "c", path, y])
    # merge
    for y in Ss:
        for x in Ss + Ps[:1] + Ds[:1]:
            for strict in (True, False):
                ops.append(["merge", y, x, strict])
    # links
    for x in Ss:
        for path in ["/a", "../a", "/zzz", "/a/a", None]:
            ops.append(["set_link", x, path])
    for d in Ds:
        ops.append(["clean", d])
        ops.append(["finalize", d])
    for s in Ss[:2]:
        ops.append(["clean", s])
    return ops


# --------------------------------------------------------------------------- full observation

def full_state(pool):
    """Everything observable about every pooled object: all attributes, child lists by pool
    index (= by identity).  Used by C06 ('a refused operation changes nothing')."""
    from mc import snapshot
    idx = {id(o): i for i, o in enumerate(pool)}
    out = []
    for o in pool:
        k = kind(o)
        ent = {"kind": k, "id": snapshot._get(o, "id")}
        attrs = {"D": snapshot.DOC_ATTRS, "S": snapshot.SEC_ATTRS, "P": snapshot.PROP_ATTRS}[k]
        for a in attrs:
            ent[a] = snapshot._get(o, a)
        if k != "D":
            par = o.parent
            ent["parent"] = idx.get(id(par), "ext") if par is not None else None
        secs, props = tree.children(o)
        if k in "DS":
            ent["sections"] = [idx.get(id(c), "ext") for c in secs]
        if k == "S":
            ent["properties"] = [idx.get(id(c), "ext") for c in props]
            mg = getattr(o, "_merged", None)
            ent["merged"] = idx.get(id(mg), "ext") if mg is not None else None
        if k == "P":
            ent["values"] = [snapshot.atom(v) for v in o.values]
        out.append(ent)
    return out


def state_diff(a, b):
    """Human-readable first differences between two full states."""
    out = []
    if len(a) != len(b):
        out.append("pool grew from %d to %d objects (a new object became reachable)" % (len(a), len(b)))
    for i, (x, y) in enumerate(zip(a, b)):
        for k in sorted(set(x) | set(y)):
            if x.get(k) != y.get(k):
                out.append("obj#%d(%s).%s: %r -> %r" % (i, x.get("kind"), k, x.get(k), y.get(k)))
    return out
