"""Abstract (JSON-able) document specifications and their construction through the public API.

spec   := {"attrs": {...}, "sections": [sec]}
sec    := {"name", "type", "attrs": {...}, "sections": [sec], "properties": [prop]}
prop   := {"name", "dtype", "values": [enc], "attrs": {...}}
enc    := JSON scalar | {"date": "YYYY-MM-DD"} | {"time": "HH:MM:SS"} | {"datetime": "..."} | [str, ...]
"""
import datetime as dt
import itertools

# text atoms, simplest first (DESIGN 2.5)
TEXT_ATOMS = [
    "a", "b c", "a,b", 'a"b', '"a"', '"', "'", "[a]", "[", "]", "a]", "[a,b]", "a\nb", "<&>",
    "ä€", " a ", "", "\t", "a;b", "(1;2)", "\\", "1", "true",
    "a\u2028b", "a\x85b",          # line boundaries for str.splitlines, not for csv / io
    "a\rb",                        # a lone carriage return
    "\u00a0", "\u2003[a,b]", "a\u3000",       # white space beyond ASCII at the ends (str.strip removes it, XML does not)
]
LOOKALIKES = ["yes", "null", "~", "1e3", "2020-01-01", "0x1F", ": x", "- a", "#c", "{a: b}", "|",
              "No", "1.0", "01:02:03", "[1, 2]"]
# long text: beyond the line width of the YAML / XML emitters, with blanks where a line could be folded
LONG_ATOMS = [" " + "x" * 90, "word " * 30, "x" * 200, "a  b" + " c" * 60, "first line\n" + "y" * 100 + " z", "\u00e4" * 90,
              "x" * 78 + " y z", "k" * 5000,
              " lead " + "word " * 20 + "end", "two  blanks " * 10 + "end", "tab\tin a long text " * 6 + "end"]
# ids that are valid but not of the kind uuid4() produces (time-based, name-based, hand-assigned, all ones)
ID_FORMS = ["6ba7b810-9dad-11d1-80b4-00c04fd430c8", "6fa459ea-ee8a-3ca4-894e-db77e160355e",
            "886313e1-3b8a-5372-9b90-0c9aee199e5d", "00000000-0000-0000-0000-0000000000a1",
            "ffffffff-ffff-ffff-ffff-ffffffffffff"]
UNREPRESENTABLE = "a\x01b"
CSV_SENSITIVE = ["a", "a,b", 'a"b', '"a"', '"', "[a]", "[", "]", "a\nb", "", " a ", "[a,b]", "a\rb"]

TYPED_ATOMS = {
    "int": [0, 1, -7, 10 ** 20],
    "float": [0.0, 0.1, 1.0 / 3, -1e-7, 1e22],
    "boolean": [True, False],
    "date": [{"date": "2020-01-02"}, {"date": "1999-12-31"}, {"date": "0999-12-31"}],      # a year that needs zero padding
    "time": [{"time": "01:02:03"}, {"time": "23:59:59"}, {"time_tz": "09:30:15"}],
    "datetime": [{"datetime": "2020-01-02 03:04:05"}, {"datetime": "1999-12-31 23:59:59"}, {"datetime": "0999-12-31 23:59:59"},
                 {"datetime_tz": "2020-05-17 09:30:15"}],       # timezone-aware native objects (datetime.now(timezone.utc))
    "2-tuple": [["1", "2"], ["a", "b c"], ["a,b", "c"], ['x"y', "<&> \u00e4"]],
    "3-tuple": [["1", "2", "3"], ["x", "y", "z"]],
}
STRING_DTYPES = ["string", "text", "url", "person"]


def dec(v):
    if isinstance(v, dict):
        if "date" in v:
            return dt.datetime.strptime(v["date"], "%Y-%m-%d").date()
        if "time" in v:
            return dt.datetime.strptime(v["time"], "%H:%M:%S").time()
        if "datetime" in v:
            return dt.datetime.strptime(v["datetime"], "%Y-%m-%d %H:%M:%S")
        if "tuple" in v:
            return tuple(v["tuple"])
        if "datetime_tz" in v:
            return dt.datetime.strptime(v["datetime_tz"], "%Y-%m-%d %H:%M:%S").replace(tzinfo=dt.timezone.utc)
        if "time_tz" in v:
            return dt.datetime.strptime(v["time_tz"], "%H:%M:%S").time().replace(tzinfo=dt.timezone.utc)
    return v


def build_property(p, parent=None):
    import odml
    kw = {k: dec(v) for k, v in p.get("attrs", {}).items()}
    vals = [dec(v) for v in p.get("values", [])]
    oid = p.get("id")
    dtype = p.get("dtype")
    if isinstance(dtype, str) and dtype.startswith("DType."):
        dtype = getattr(odml.DType, dtype[6:])      # the dtype given as a member of the DType enumeration
    return odml.Property(name=p["name"], values=vals if vals else None, dtype=dtype,
                         parent=parent, oid=oid, **kw)


def build_section(s, parent=None):
    import odml
    kw = {k: dec(v) for k, v in s.get("attrs", {}).items()}
    sec = odml.Section(name=s["name"], type=s.get("type", "t"), parent=parent, oid=s.get("id"), **kw)
    for p in s.get("properties", []):
        build_property(p, sec)
    for c in s.get("sections", []):
        build_section(c, sec)
    return sec


def build(spec):
    import odml
    kw = {k: dec(v) for k, v in spec.get("attrs", {}).items()}
    doc = odml.Document(oid=spec.get("id"), **kw)
    for s in spec.get("sections", []):
        build_section(s, doc)
    return doc


# --------------------------------------------------------------------------- tree shapes

def tree_shapes(n):
    """All ordered forests with n nodes, each as a nested list of children lists.
    A forest is a list of trees; a tree is the list of its child trees."""
    if n == 0:
        return [[]]
    out = []
    # first tree has k nodes (1..n): root + forest of k-1 nodes; rest forest has n-k nodes
    for k in range(1, n + 1):
        for sub in tree_shapes(k - 1):
            for rest in tree_shapes(n - k):
                out.append([sub] + rest)
    return out


def name_forest(forest, names=None, props=None, prefix=""):
    """Turn a shape into section specs with unique names s0, s1, ... in pre-order."""
    counter = itertools.count()

    def rec(f):
        res = []
        for t in f:
            i = next(counter)
            nm = names[i] if names else "s%d" % i
            sec = {"name": nm, "type": "t", "sections": [], "properties": [], "attrs": {}}
            if props:
                sec["properties"] = [dict(p) for p in props(i)]
            res.append(sec)
            sec["sections"] = rec(t)
        return res
    return rec(forest)


def doc_of(sections, **attrs):
    return {"attrs": attrs, "sections": sections}


def simple_doc(prop):
    """One Section with one Property."""
    return doc_of([{"name": "s", "type": "t", "sections": [], "properties": [prop], "attrs": {}}])


def count_nodes(spec):
    n = 0
    todo = list(spec["sections"])
    while todo:
        s = todo.pop()
        n += 1
        todo.extend(s.get("sections", []))
    return n
