"""Abstract odML 1.0 documents and their rendering to 1.0 XML / JSON / YAML text (by this generator,
not by the library).

doc  := {"attrs": {author, version, date, ...}, "id": str|None, "extra": [(tag, text)], "sections": [sec]}
sec  := {"name", "type", "id", "attrs": {definition, reference, ...}, "extra": [...], "sections": [sec], "properties": [prop]}
prop := {"name": str|None, "id", "attrs": {definition, dependency, dependency_value}, "extra": [...], "values": [val]}
val  := {"text": str, "attrs": [(tag, text), ...] in document order (unit, uncertainty, type, filename, definition,
         reference, or unsupported tags)}
An id of None means: no id element."""
import copy
import json
from xml.sax.saxutils import escape


class Raw(str):
    """Element content that is XML markup itself (an unsupported element holding elements); in the dictionary forms the
    same characters are plain text."""


def esc(text):
    return str(text) if isinstance(text, Raw) else escape(text)


def el(tag, text, ind=""):
    if text is None:
        return ""           # a null entry of the dictionary forms has no XML counterpart
    if tag == "#comment":
        return "%s<!--%s-->\n" % (ind, text)
    return "%s<%s>%s</%s>\n" % (ind, tag, esc(text), tag)


def xml_value(v, ind):
    inner = ""
    for tag, text in v["attrs"]:
        if text is None:
            continue
        if tag == "#comment":
            inner += "<!--%s-->" % text
            continue
        inner += "<%s>%s</%s>" % (tag, esc(text), tag)
    if v.get("text_last"):
        # mixed content the other way round: the value text follows the elements of the value
        return "%s<value>%s%s</value>\n" % (ind, inner, escape(v["text"]))
    return "%s<value>%s%s</value>\n" % (ind, escape(v["text"]), inner)


def xml_prop(p, ind):
    out = ind + "<property>\n"
    i2 = ind + "  "
    if p["name"] is not None:
        out += el("name", p["name"], i2)
    if p.get("id") is not None:
        out += el("id", p["id"], i2)
    own = ""
    for k, v in p["attrs"].items():
        own += el(k, v, i2)
    for tag, text in p.get("extra", []):
        own += el(tag, text, i2)
    vals = ""
    for v in p["values"]:
        vals += xml_value(v, i2)
    # 1.0 files hold the elements of a Property in any order
    out += (vals + own) if p.get("order") == "values-first" else (own + vals)
    return out + ind + "</property>\n"


def xml_sec(s, ind):
    out = ind + "<section>\n"
    i2 = ind + "  "
    out += el("name", s["name"], i2) + el("type", s["type"], i2)
    if s.get("id") is not None:
        out += el("id", s["id"], i2)
    for k, v in s["attrs"].items():
        out += el(k, v, i2)
    for tag, text in s.get("extra", []):
        out += el(tag, text, i2)
    for p in s["properties"]:
        out += xml_prop(p, i2)
    for c in s["sections"]:
        out += xml_sec(c, i2)
    return out + ind + "</section>\n"


def to_xml(doc, header=True):
    out = '<?xml version="1.0" encoding="UTF-8"?>\n' if header else ""
    out += '<odML version="1">\n'
    for k, v in doc["attrs"].items():
        out += el(k, v, "  ")
    if doc.get("id") is not None:
        out += el("id", doc["id"], "  ")
    for tag, text in doc.get("extra", []):
        out += el(tag, text, "  ")
    for s in doc["sections"]:
        out += xml_sec(s, "  ")
    return out + "</odML>\n"


def _native(text):
    """The scalar a hand-written JSON / YAML file would hold for this text (0 instead of "0")."""
    if not isinstance(text, str):
        return text
    try:
        if text == str(int(text)):
            return int(text)
    except ValueError:
        pass
    try:
        if text == repr(float(text)):
            return float(text)
    except ValueError:
        pass
    return text


def to_dict(doc, native=False, share=False):
    """share: equal sub-dictionaries (values, Properties, Sections) are one and the same object - what a program
    that builds the tree from shared parts hands to yaml.dump, which then writes anchors and aliases."""
    nat = _native if native else (lambda t: t)
    pool = {}

    def shared(d):
        if not share:
            return d
        return pool.setdefault(json.dumps(d, sort_keys=True, default=str), d)

    def val(v):
        d = {"value": nat(v["text"])}
        for tag, text in v["attrs"]:
            if tag == "#comment":
                continue
            # a dictionary holds every key once
            d.setdefault(tag, None if text is None else (nat(text) if tag == "uncertainty" else str(text)))
        return shared(d)

    def prop(p):
        d = {}
        if p["name"] is not None:
            d["name"] = p["name"]
        if p.get("id") is not None:
            d["id"] = p["id"]
        if p.get("order") == "values-first":
            d["values"] = [val(v) for v in p["values"]]
        d.update(p["attrs"])
        for tag, text in p.get("extra", []):
            if tag != "#comment":
                d[tag] = str(text)
        if p.get("order") != "values-first":
            d["values"] = [val(v) for v in p["values"]]
        return shared(d)

    def sec(s):
        d = {"name": s["name"], "type": s["type"]}
        if s.get("id") is not None:
            d["id"] = s["id"]
        d.update(s["attrs"])
        for tag, text in s.get("extra", []):
            if tag != "#comment":
                d[tag] = str(text)
        d["properties"] = [prop(p) for p in s["properties"]]
        d["sections"] = [sec(c) for c in s["sections"]]
        return shared(d)
    d = dict(doc["attrs"])
    if native and "version" in d:
        d["version"] = nat(d["version"])        # version: 0.9
    if doc.get("id") is not None:
        d["id"] = doc["id"]
    for tag, text in doc.get("extra", []):
        if tag != "#comment":
            d[tag] = str(text)
    d["sections"] = [sec(s) for s in doc["sections"]]
    return {"Document": d, "odml-version": "1"}


def to_json(doc, native=False):
    return json.dumps(to_dict(doc, native), indent=2)


def to_yaml(doc, native=False, share=False):
    import yaml
    if share:
        return yaml.safe_dump(to_dict(doc, share=True), default_flow_style=False, default_style='"', sort_keys=False)
    if native:
        return yaml.safe_dump(to_dict(doc, True), default_flow_style=False, sort_keys=False)
    # every scalar quoted: the text stays text whatever it looks like
    return yaml.safe_dump(to_dict(doc), default_flow_style=False, default_style='"', sort_keys=False)


def duplicate_keys_lost(doc):
    """True when the dictionary forms cannot express the document (a value element with the same tag twice)."""
    for s in all_sections(doc):
        for p in s["properties"]:
            for v in p["values"]:
                tags = [t for t, _ in v["attrs"]]
                if len(tags) != len(set(tags)):
                    return True
    return False


def all_sections(doc):
    out = []

    def rec(lst):
        for s in lst:
            out.append(s)
            rec(s["sections"])
    rec(doc["sections"])
    return out


# --------------------------------------------------------------------------- baseline and deviations

VALID_ID = "11111111-2222-4333-8444-%012d"


def V(text, *attrs):
    return {"text": text, "attrs": list(attrs)}


def baseline():
    return {
        "attrs": {"author": "me", "version": "0.9", "date": "2019-05-06"}, "id": None, "extra": [],
        "sections": [
            {"name": "s1", "type": "t1", "id": VALID_ID % 1, "attrs": {"definition": "first"}, "extra": [],
             "properties": [
                 {"name": "p1", "id": VALID_ID % 2, "attrs": {"definition": "pdef"}, "extra": [],
                  "values": [V("1", ("type", "int"), ("unit", "mV"))]},
                 {"name": "p2", "id": None, "attrs": {}, "extra": [], "values": [V("x"), V("y")]}],
             "sections": [
                 {"name": "s11", "type": "t2", "id": None, "attrs": {}, "extra": [], "sections": [],
                  "properties": [{"name": "q", "id": None, "attrs": {}, "extra": [], "values": [V("z")]}]}]},
            {"name": "s2", "type": "t1", "id": None, "attrs": {}, "extra": [], "sections": [], "properties": []}],
    }


def _p(doc, which):
    s1 = doc["sections"][0]
    return {"p1": s1["properties"][0], "p2": s1["properties"][1], "q": s1["sections"][0]["properties"][0]}[which]


def _setval(p, idx, val):
    while len(p["values"]) <= idx:
        p["values"].append(V("fill%d" % len(p["values"])))
    p["values"][idx] = val


def deviations():
    """(label, function(doc)) - each one departure from the baseline."""
    devs = []

    def add(label, fn):
        devs.append((label, fn))

    # number of value elements
    for n in (0, 1, 2, 3):
        add("values:p2:%d" % n, lambda d, n=n: _p(d, "p2").__setitem__("values", [V("v%d" % i) for i in range(n)]))
    # value texts
    for text in ("a,b", "[x]", " pad ", "", "a\"b", "ä"):
        add("text-first:%r" % text, lambda d, t=text: _setval(_p(d, "p2"), 0, V(t)))
        add("text-later:%r" % text, lambda d, t=text: _setval(_p(d, "p2"), 1, V(t)))
        add("text-single:%r" % text, lambda d, t=text: _p(d, "q").__setitem__("values", [V(t)]))
    # attribute placement on the value elements of p2 (three values)
    samples = {"unit": ("mV", "kV"), "uncertainty": ("0.5", "2"), "type": ("string", "text"), "filename": ("a.dat", "b.dat"),
               "definition": ("d1", "d2"), "reference": ("r1", "r2")}
    for attr, (a, b) in samples.items():
        def place(d, attr=attr, a=a, b=b, how="first"):
            vals = [V("u"), V("v"), V("w")]
            if how == "first":
                vals[0]["attrs"].append((attr, a))
            elif how == "later":
                vals[2]["attrs"].append((attr, a))
            elif how == "all":
                for v in vals:
                    v["attrs"].append((attr, a))
            elif how == "conflict":
                vals[0]["attrs"].append((attr, a))
                vals[1]["attrs"].append((attr, b))
            elif how == "on-empty-value":
                vals[0] = V("", (attr, a))      # a value element without text that still carries the attribute
            _p(d, "p2")["values"] = vals
        for how in ("first", "later", "all", "conflict", "on-empty-value"):
            add("%s:%s" % (attr, how), lambda d, f=place, how=how: f(d, how=how))
    add("zero-values", lambda d: _p(d, "p2").__setitem__("values", [V("3", ("type", "int")), V("0"), V("7")]))
    add("zero-first-value", lambda d: _p(d, "q").__setitem__("values", [V("0", ("type", "int"), ("uncertainty", "0"))]))
    add("float-values", lambda d: _p(d, "p2").__setitem__("values", [V("0.0", ("type", "float")), V("2.5", ("uncertainty", "0.0"))]))
    add("type:int-float-conflict", lambda d: _p(d, "p2").__setitem__("values", [V("1", ("type", "int")), V("2", ("type", "float"))]))
    add("dtype-spelling", lambda d: _p(d, "q").__setitem__("values", [V("5", ("dtype", "int"))]))
    add("binary", lambda d: _p(d, "q").__setitem__("values", [V("abc", ("type", "binary"))]))
    add("binary-dtype-spelling", lambda d: _p(d, "q").__setitem__("values", [V("abc", ("dtype", "binary"))]))
    # sibling names
    def more_props(d, names):
        s = d["sections"][0]
        s["properties"] = [{"name": n, "id": None, "attrs": {}, "extra": [], "values": [V("k%d" % i)]} for i, n in enumerate(names)]

    def more_secs(d, names, nested=False):
        tgt = d["sections"][0] if nested else d
        tgt["sections"] = [{"name": n, "type": "t", "id": None, "attrs": {}, "extra": [], "sections": [],
                            "properties": [{"name": "k", "id": None, "attrs": {}, "extra": [], "values": [V("k%d" % i)]}]}
                           for i, n in enumerate(names)]
    for names in (["p", "p"], ["p", "p", "p"], ["p", "p", "p-2"], ["p", "p-2", "p"], ["p", "q", "p"]):
        add("prop-names:%s" % ",".join(names), lambda d, n=names: more_props(d, n))
        add("sec-names:%s" % ",".join(names), lambda d, n=names: more_secs(d, n))
        add("nested-sec-names:%s" % ",".join(names), lambda d, n=names: more_secs(d, n, True))
    # a sub-Section and a Property of one Section share a name (no clash: different kinds)
    def same_name_both(d):
        s = d["sections"][0]
        s["sections"][0]["name"] = "shared"
        s["properties"][0]["name"] = "shared"
    add("sec-and-prop-share-a-name", same_name_both)
    # ids
    ids = {"absent": None, "valid": VALID_ID % 77, "upper": (VALID_ID % 78).upper().replace("1", "A"),
           "malformed": "not-an-id", "empty": ""}
    def lvl(v, n):
        # distinct ids on the three levels (a 1.0 document with duplicate ids is not what is tested here)
        return v if not v or v == "not-an-id" else v[:-1] + str(n)
    for k, v in ids.items():
        add("doc-id:%s" % k, lambda d, v=v: d.__setitem__("id", lvl(v, 1)))
        add("sec-id:%s" % k, lambda d, v=v: d["sections"][0]["sections"][0].__setitem__("id", lvl(v, 2)))
        add("prop-id:%s" % k, lambda d, v=v: _p(d, "q").__setitem__("id", lvl(v, 3)))
    # unsupported elements
    add("foo:doc", lambda d: d["extra"].append(("foo", "bar")))
    add("foo:sec", lambda d: d["sections"][0]["extra"].append(("foo", "bar")))
    add("foo:prop", lambda d: _p(d, "p1")["extra"].append(("foo", "bar")))
    add("foo:value", lambda d: (_setval(_p(d, "p1"), 0, _p(d, "p1")["values"][0] if _p(d, "p1")["values"] else V("1")),
                                _p(d, "p1")["values"][0]["attrs"].append(("foo", "bar"))))
    # unsupported elements that hold odML elements themselves: all of it is dropped, nothing of it is lifted, and the
    # walk over the rest of the document goes on
    inner_sec = "<section><name>inner</name><type>t</type><property><name>ip</name><value>1<unit>kV</unit></value></property></section>"
    inner_prop = "<property><name>ip</name><value>1<unit>kV</unit></value></property>"
    add("foo-nested:doc", lambda d: d["extra"].append(("foo", Raw(inner_sec))))
    add("foo-nested:sec", lambda d: d["sections"][0]["extra"].append(("foo", Raw(inner_sec + inner_prop))))
    add("foo-nested:nested-sec", lambda d: d["sections"][0]["sections"][0]["extra"].append(("foo", Raw(inner_sec))))
    add("foo-nested:prop", lambda d: _p(d, "p1")["extra"].append(("foo", Raw(inner_prop + "<value>9</value>"))))
    add("foo-nested:value", lambda d: _p(d, "p2")["values"][0]["attrs"].append(("foo", Raw("<unit>kV</unit><definition>inner</definition>"))))
    add("comment:value", lambda d: _p(d, "p2")["values"][0]["attrs"].extend([("#comment", " note "), ("unit", "mV")]))
    # the Property's own elements after its value elements, own and value-borne attributes agreeing or conflicting
    def values_first(d, vattrs):
        p = _p(d, "p1")
        p["order"] = "values-first"
        p["attrs"].update({"definition": "pdef"})
        p["values"] = [V("1", ("type", "int"), *vattrs), V("2")]
    add("values-first:plain", lambda d: values_first(d, []))
    add("values-first:conflict", lambda d: values_first(d, [("definition", "vdef"), ("reference", "vref")]))
    add("values-first:conflict-on-later-value", lambda d: (values_first(d, []), _p(d, "p1")["values"][1]["attrs"].append(("definition", "vdef"))))
    add("values-first:agree", lambda d: values_first(d, [("definition", "pdef")]))
    # elements that are legal elsewhere in the tree, at a level that does not support them: only that one is dropped
    add("stray:doc:definition", lambda d: d["extra"].append(("definition", "stray")))
    add("stray:doc:unit", lambda d: d["extra"].append(("unit", "stray")))
    add("stray:doc:type", lambda d: d["extra"].append(("type", "stray")))
    add("stray:sec:value", lambda d: d["sections"][0]["extra"].append(("value", "stray")))
    add("stray:sec:unit", lambda d: d["sections"][0]["extra"].append(("unit", "stray")))
    add("stray:sec:author", lambda d: d["sections"][0]["extra"].append(("author", "stray")))
    add("stray:sec:dependency", lambda d: d["sections"][0]["extra"].append(("dependency", "stray")))
    add("stray:nested-sec:value", lambda d: d["sections"][0]["sections"][0]["extra"].append(("value", "stray")))
    add("stray:prop:author", lambda d: _p(d, "p1")["extra"].append(("author", "stray")))
    add("stray:prop:date", lambda d: _p(d, "p2")["extra"].append(("date", "2020-01-01")))
    add("comment:doc", lambda d: d["extra"].append(("#comment", " note ")))
    add("comment:sec", lambda d: d["sections"][0]["extra"].append(("#comment", " note ")))
    add("comment:prop", lambda d: _p(d, "p1")["extra"].append(("#comment", " note ")))
    add("mapping:sec", lambda d: d["sections"][1]["extra"].append(("mapping", "m#n")))
    add("synonym:prop", lambda d: _p(d, "p2")["extra"].append(("synonym", "alias")))
    # unnamed Properties
    for pos in (0, 1, 2):
        def unnamed(d, pos=pos):
            s = d["sections"][0]
            s["properties"] = [{"name": "k%d" % i, "id": None, "attrs": {}, "extra": [], "values": [V("k%d" % i)]} for i in range(3)]
            s["properties"][pos]["name"] = None
        add("unnamed-property:%d" % pos, unnamed)
    # Property attributes
    add("dependency", lambda d: _p(d, "p2")["attrs"].update({"dependency": "p1", "dependency_value": "1"}))
    add("dependencyvalue-spelling", lambda d: _p(d, "p2")["attrs"].update({"dependency": "p1", "dependencyvalue": "1"}))
    add("sec-reference", lambda d: d["sections"][1]["attrs"].update({"reference": "ref"}))
    add("empty-section-list", lambda d: d.__setitem__("sections", []))
    # repeated content: equal values in one Property, the same Property in two Sections, the same sub-Section below two
    # Sections (rendered to YAML once more with the equal parts shared, i.e. with anchors and aliases)
    add("repeat:values", lambda d: _p(d, "p2").__setitem__("values", [V("x", ("unit", "mV")), V("x", ("unit", "mV")), V("y")]))

    def no_ids(node):
        node["id"] = None
        for c in node.get("properties", []) + node.get("sections", []):
            no_ids(c)
        return node

    def repeat_prop(d):
        p = copy.deepcopy(_p(d, "p1"))
        p["id"] = None
        d["sections"][1]["properties"].append(p)
        q = copy.deepcopy(p)
        d["sections"][0]["sections"][0]["properties"].append(q)
    add("repeat:property-in-three-sections", repeat_prop)

    def repeat_sec(d):
        c = no_ids(copy.deepcopy(d["sections"][0]["sections"][0]))
        d["sections"][1]["sections"].append(c)
    add("repeat:sub-section-below-two-sections", repeat_sec)
    # null entries (dictionary forms only; the XML rendering has no element for them)
    add("null:value-unit", lambda d: _p(d, "p2")["values"][0]["attrs"].append(("unit", None)))
    add("null:value-definition-then-set", lambda d: (_p(d, "p2")["values"][0]["attrs"].append(("definition", None)),
                                                      _p(d, "p2")["values"][1]["attrs"].append(("definition", "d2"))))
    add("null:value-uncertainty", lambda d: _p(d, "q")["values"][0]["attrs"].append(("uncertainty", None)))
    add("null:property-definition", lambda d: _p(d, "p2")["attrs"].update({"definition": None}))
    add("null:section-definition", lambda d: d["sections"][1]["attrs"].update({"definition": None}))
    add("null:document-author", lambda d: d["attrs"].update({"author": None}))
    # the text of a value element after its child elements
    add("value-text-last:p1", lambda d: _p(d, "p1")["values"][0].__setitem__("text_last", True))
    add("value-text-last:p2-second", lambda d: (_p(d, "p2")["values"][1]["attrs"].append(("unit", "mV")),
                                                 _p(d, "p2")["values"][1].__setitem__("text_last", True)))
    return devs


STRUCTURAL = ("prop-names", "sec-names", "nested-sec-names", "unnamed-property", "empty-section-list", "values")


def apply(labels):
    """Structural deviations first; a deviation whose slot no longer exists after them is void."""
    doc = copy.deepcopy(baseline())
    table = dict(deviations())
    for l in sorted(labels, key=lambda l: (l.split(":")[0] not in STRUCTURAL, labels.index(l))):
        try:
            table[l](doc)
        except (IndexError, KeyError):
            pass
    return doc
