"""Independent emitter: document spec (gen/docs.py) -> odML 1.1 XML text, written without the
library ("XML written to that vocabulary by another tool").  Only CSV-neutral value text is
supported for multi-valued Properties (no comma, quote, bracket, newline inside a value)."""
from xml.sax.saxutils import escape

DOC_TAGS = {"author": "author", "version": "version", "date": "date", "repository": "repository"}
SEC_TAGS = {"definition": "definition", "reference": "reference", "repository": "repository",
            "link": "link", "include": "include", "sec_cardinality": "sec_cardinality",
            "prop_cardinality": "prop_cardinality"}
PROP_TAGS = {"unit": "unit", "uncertainty": "uncertainty", "definition": "definition",
             "reference": "reference", "dependency": "dependency", "dependency_value": "dependencyvalue",
             "value_origin": "value_origin", "val_cardinality": "val_cardinality"}


def _text(v):
    if isinstance(v, dict):
        if "tuple" in v:
            a, b = v["tuple"]
            return "(%s, %s)" % (a, b)
        return list(v.values())[0]
    if isinstance(v, bool):
        return "True" if v else "False"
    if isinstance(v, list):
        return "(" + ";".join(v) + ")"
    return str(v)


VARIANT = ["compact"]


def _enc(text):
    if VARIANT[0] == "numeric-refs":
        # every non-alphanumeric character as a numeric character reference
        return "".join(c if (c.isalnum() and ord(c) < 128) else "&#%d;" % ord(c) for c in text)
    return _esc(text)


def _esc(text):
    # a literal carriage return would be normalised to a line feed by every XML parser
    return escape(text).replace("\r", "&#13;")


def _el(tag, text, ind):
    if VARIANT[0] == "padded" and text != "":
        return "%s<%s>\n%s    %s\n%s</%s>\n" % (ind, tag, ind, _esc(text), ind, tag)
    return "%s<%s>%s</%s>\n" % (ind, tag, _enc(text), tag)


def prop_xml(p, ind="", numeric_refs=False):
    out = ind + "<property>\n"
    i2 = ind + "  "
    # a different but equivalent element order than the library's writer: value first
    vals = p.get("values", [])
    if vals:
        texts = [_text(v) for v in vals]
        out += _el("value", "[" + ",".join(texts) + "]" if len(texts) > 1 or p.get("bracket_single")
                   else texts[0], i2)
    if p.get("dtype"):
        out += _el("type", p["dtype"][6:] if p["dtype"].startswith("DType.") else p["dtype"], i2)
    for k, v in p.get("attrs", {}).items():
        out += _el(PROP_TAGS[k], _text(v), i2)
    if p.get("id"):
        out += _el("id", p["id"], i2)
    out += _el("name", p["name"], i2)
    return out + ind + "</property>\n"


def sec_xml(s, ind=""):
    out = ind + "<section>\n"
    i2 = ind + "  "
    out += _el("type", s.get("type", "t"), i2)
    out += _el("name", s["name"], i2)
    for c in s.get("sections", []):
        out += sec_xml(c, i2)
    if s.get("id"):
        out += _el("id", s["id"], i2)
    for k, v in s.get("attrs", {}).items():
        out += _el(SEC_TAGS[k], _text(v), i2)
    for p in s.get("properties", []):
        out += prop_xml(p, i2)
    return out + ind + "</section>\n"


def doc_xml(spec, version="1.1", variant="compact"):
    VARIANT[0] = variant
    out = '<?xml version="1.0" encoding="UTF-8"?>\n<odML version="%s">\n' % version
    for s in spec.get("sections", []):
        out += sec_xml(s, "  ")
    for k, v in spec.get("attrs", {}).items():
        out += _el(DOC_TAGS[k], _text(v), "  ")
    if spec.get("id"):
        out += _el("id", spec["id"], "  ")
    return out + "</odML>\n"
