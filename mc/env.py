"""Determinism seams, scratch directories, output silencing, watchdog.

Everything here is installed from the harness by rebinding module attributes; the library
source is not touched (DESIGN 2.2, 2.12).
"""
import atexit
import datetime as _dt
import io
import os
import shutil
import signal
import sys
import tempfile
import uuid as _uuid

VERIF = os.path.dirname(os.path.dirname(os.path.abspath(__file__)))
REPO = os.environ.get("VERIF_REPO", "/repo")
SEED = int(os.environ.get("VERIF_SEED", "0") or 0)
REAL_STDOUT = sys.stdout
REAL_STDERR = sys.stderr
FIXED_NOW = _dt.datetime(2021, 3, 4, 5, 6, 7)

_scratch_root = None
_installed = False


class HarnessError(Exception):
    """An inconsistency of the harness itself (never a verdict about the library)."""


def reexec_if_needed():
    """Fix the hash seed and keep /repo free of byte code: re-execute once if necessary."""
    if os.environ.get("PYTHONHASHSEED") != "0" or os.environ.get("PYTHONDONTWRITEBYTECODE") != "1":
        env = dict(os.environ)
        env["PYTHONHASHSEED"] = "0"
        env["PYTHONDONTWRITEBYTECODE"] = "1"
        os.execve(sys.executable, [sys.executable] + sys.argv, env)


def import_repo():
    """Make `import odml` resolve to REPO's working tree and prove it."""
    sys.dont_write_bytecode = True
    if REPO in sys.path:
        sys.path.remove(REPO)
    sys.path.insert(0, REPO)
    import odml  # noqa
    here = os.path.realpath(os.path.dirname(odml.__file__))
    want = os.path.realpath(os.path.join(REPO, "odml"))
    if here != want:
        raise HarnessError("odml imported from %s, expected %s" % (here, want))
    return odml


# --------------------------------------------------------------------------- uuid seam

class _UuidStream(object):
    def __init__(self):
        self.n = 0
        self.salt = 0

    def reset(self, salt=0):
        self.n = 0
        self.salt = salt & 0xFFFFFFFF

    def __call__(self):
        self.n += 1
        # version-4 / variant-1 shaped, deterministic, unique per (salt, n)
        val = (0x5eed0000 << 96) | (self.salt << 64) | self.n
        val &= ~(0xF000 << 64)
        val |= 0x4000 << 64
        val &= ~(0xC000 << 48)
        val |= 0x8000 << 48
        return _uuid.UUID(int=val)


UUIDS = _UuidStream()


class _DatetimeMeta(type):
    def __instancecheck__(cls, inst):
        return isinstance(inst, _dt.datetime)

    def __getattr__(cls, name):
        # everything but now() is the real class's (fromisoformat, combine, min, max, ...)
        return getattr(_dt.datetime, name)


class _FixedDatetime(metaclass=_DatetimeMeta):
    """Stands in for `datetime.datetime` inside odml.dtypes: `now()` is a fixed instant, every
    other use (strptime, isinstance) behaves like, and yields, the real class."""
    strptime = staticmethod(_dt.datetime.strptime)
    fromtimestamp = staticmethod(_dt.datetime.fromtimestamp)

    @staticmethod
    def now(tz=None):
        return FIXED_NOW

    def __new__(cls, *a, **k):
        return _dt.datetime(*a, **k)


class _Now(object):
    """Stand-in for the `datetime` module inside odml.dtypes."""
    datetime = _FixedDatetime
    date = _dt.date
    time = _dt.time
    timedelta = _dt.timedelta


class _NullWriter(io.TextIOBase):
    def write(self, s):
        return len(s)

    def flush(self):
        pass


NULL = _NullWriter()


class SyncThread(object):
    """Run-to-completion-at-start replacement for threading.Thread (outside C18)."""

    def __init__(self, target=None, args=(), kwargs=None, **_ignored):
        self._target, self._args, self._kwargs = target, args, kwargs or {}
        self._started = False

    def start(self):
        self._started = True
        try:
            self._target(*self._args, **self._kwargs)
        except Exception:
            pass  # a real thread would print the traceback and die

    def join(self, timeout=None):
        if not self._started:
            raise RuntimeError("cannot join thread before it is started")

    def is_alive(self):
        return False


class _ThreadingShim(object):
    Thread = SyncThread

    def __getattr__(self, name):
        import threading
        return getattr(threading, name)


def scratch_root():
    global _scratch_root
    if _scratch_root is None or not os.path.isdir(_scratch_root):
        # tmpfs when there is one: many small files are created and removed per case
        parent = os.environ.get("VERIF_SCRATCH") or ("/dev/shm" if os.access("/dev/shm", os.W_OK) else "/tmp")
        _scratch_root = tempfile.mkdtemp(prefix="odmlverif-%d-" % os.getpid(), dir=parent)
        root = _scratch_root
        pid = os.getpid()

        def _cleanup():
            if os.getpid() == pid:
                shutil.rmtree(root, ignore_errors=True)
        atexit.register(_cleanup)
    return _scratch_root


_case_dir_n = 0


def fresh_dir(tag="c"):
    """A fresh empty scratch directory (removed by `drop_dir` or at exit)."""
    global _case_dir_n
    _case_dir_n += 1
    path = os.path.join(scratch_root(), "%s-%d-%d" % (tag, os.getpid(), _case_dir_n))
    os.makedirs(path)
    return path


def drop_dir(path):
    shutil.rmtree(path, ignore_errors=True)


def install(silence=True, sync_threads=True):
    """Install all seams in this process (idempotent)."""
    global _installed
    odml = import_repo()
    if _installed:
        return odml
    _installed = True
    _uuid.uuid4 = UUIDS
    import odml.dtypes as dtypes
    dtypes.dt = _Now
    # terminology cache -> private temp dir
    tempfile.tempdir = os.path.join(scratch_root(), "tmp")
    os.makedirs(tempfile.tempdir, exist_ok=True)
    import odml.terminology as terminology
    real_urlopen = terminology.urllib2.urlopen

    def urlopen(url, *a, **k):
        target = url if isinstance(url, str) else getattr(url, "full_url", "")
        if not target.startswith("file:"):
            raise IOError("network access disabled by the harness: %s" % target)
        return real_urlopen(url, *a, **k)

    _real_urllib = terminology.urllib2
    shim = type("urlshim", (), {"urlopen": staticmethod(urlopen),
                                "__getattr__": lambda self, n: getattr(_real_urllib, n)})()
    terminology.urllib2 = shim
    import odml.templates as templates
    _real_urllib_t = templates.urllib2
    templates.urllib2 = type("urlshim", (), {"urlopen": staticmethod(urlopen),
                                             "__getattr__": lambda self, n: getattr(_real_urllib_t, n)})()
    if sync_threads:
        terminology.threading = _ThreadingShim()
        templates.threading = _ThreadingShim()
    if silence:
        sys.stdout = NULL
        sys.stderr = NULL
    import warnings
    warnings.simplefilter("ignore")
    return odml


def reset_globals(salt=0):
    """Reset every piece of module-level state a case can touch."""
    UUIDS.reset(salt)
    import odml.terminology as terminology
    terminology.terminologies.clear()
    terminology.Terminologies.loading = {}
    terminology.terminologies.__dict__.pop("loading", None)
    terminology.terminologies.reload_cache = False
    try:
        import odml.templates as templates
        templates.TemplateHandler.loading = {}
    except Exception:
        pass


def say(line):
    REAL_STDOUT.write(line + "\n")
    REAL_STDOUT.flush()


def note(line):
    REAL_STDERR.write(line + "\n")
    REAL_STDERR.flush()


# --------------------------------------------------------------------------- watchdog

class Timeout(BaseException):
    pass


def _alarm(signum, frame):
    raise Timeout()


WALL_FACTOR = 20


def with_watchdog(fn, seconds=5, wall_factor=None):
    """Run fn(); Timeout is raised inside it if it does not terminate.

    The limit is counted in *processor time* of this process (other jobs on the machine must not turn a case that
    needs a second into one that 'does not terminate'); a wall-clock limit `wall_factor` times as long backs it up
    for code that waits without computing (a blocked lock, a sleep, a child process).  Calls may be nested: the
    timers of the enclosing call are put back afterwards."""
    factor = WALL_FACTOR if wall_factor is None else wall_factor
    old_p = signal.signal(signal.SIGPROF, _alarm)
    prev_p = signal.setitimer(signal.ITIMER_PROF, seconds)
    old_a = signal.signal(signal.SIGALRM, _alarm)
    prev_a = signal.setitimer(signal.ITIMER_REAL, seconds * factor)
    try:
        return fn()
    finally:
        signal.setitimer(signal.ITIMER_PROF, prev_p[0], prev_p[1])
        signal.signal(signal.SIGPROF, old_p)
        signal.setitimer(signal.ITIMER_REAL, prev_a[0], prev_a[1])
        signal.signal(signal.SIGALRM, old_a)


def with_cpu_watchdog(fn, seconds=5):
    """Like with_watchdog, processor time only (the wall-clock backstop of an enclosing with_watchdog stays armed)."""
    old_p = signal.signal(signal.SIGPROF, _alarm)
    prev_p = signal.setitimer(signal.ITIMER_PROF, seconds)
    try:
        return fn()
    finally:
        signal.setitimer(signal.ITIMER_PROF, prev_p[0], prev_p[1])
        signal.signal(signal.SIGPROF, old_p)


# --------------------------------------------------------------------------- exception labels

def exc_label(exc):
    """Name under which an exception is recorded.  A class of the library (or anybody else's) is recorded with the
    built-in exception classes it derives from - 'CardinalityError<ValueError>' - so that a statement that asks for
    ValueError is satisfied by every sub-class of it (`is_a`), as `except ValueError` would be."""
    cls = exc if isinstance(exc, type) else type(exc)
    if cls.__module__ == "builtins":
        return cls.__name__
    bases = [c.__name__ for c in cls.__mro__[1:]
             if c.__module__ == "builtins" and c.__name__ not in ("Exception", "BaseException", "object")]
    return "%s<%s>" % (cls.__name__, ",".join(bases)) if bases else cls.__name__


def is_a(label, base):
    """label (from exc_label) denotes `base` or a sub-class of it"""
    if not isinstance(label, str):
        return False
    if label == base:
        return True
    if label.endswith(">") and "<" in label:
        name, _, rest = label[:-1].partition("<")
        return name == base or base in rest.split(",")
    return False
