"""Fault injector for the save paths (DESIGN 2.7): serialisation call sites that can be made to
count their calls (recording mode) or to raise on their k-th call (injection mode).

Sites are rebinding seams (module / class attributes); nothing in /repo is edited."""
import contextlib


class InjectedFault(RuntimeError):
    pass


def _sites():
    import json
    import yaml
    import rdflib
    import lxml.etree as ET
    from odml.tools import xmlparser, odmlparser, dict_parser, rdf_converter

    class ModShim(object):
        """module look-alike with some attributes overridden"""

        def __init__(self, real):
            self._real = real
            self._over = {}

        def __getattr__(self, name):
            over = object.__getattribute__(self, "_over")
            if name in over:
                return over[name]
            return getattr(object.__getattribute__(self, "_real"), name)

    def class_attr(cls, name, static=False):
        def get():
            return cls.__dict__[name]

        def put(fn):
            setattr(cls, name, staticmethod(fn) if static else fn)

        def restore(orig):
            setattr(cls, name, orig)

        def call(orig, *a, **k):
            f = orig.__func__ if isinstance(orig, staticmethod) else orig
            return f(*a, **k)
        return get, put, restore, call

    def module_func(owner_mod, modattr, fname):
        real_mod = getattr(owner_mod, modattr)

        def get():
            return real_mod

        def put(fn):
            shim = ModShim(real_mod)
            shim._over[fname] = fn
            setattr(owner_mod, modattr, shim)

        def restore(orig):
            setattr(owner_mod, modattr, orig)

        def call(orig, *a, **k):
            return getattr(orig, fname)(*a, **k)
        return get, put, restore, call

    return {
        "XMLWriter.__str__": class_attr(xmlparser.XMLWriter, "__str__"),
        "XMLWriter.save_element": class_attr(xmlparser.XMLWriter, "save_element", static=True),
        "lxml.tounicode": module_func(xmlparser, "ET", "tounicode"),
        "DictWriter.to_dict": class_attr(dict_parser.DictWriter, "to_dict"),
        "json.dumps": module_func(odmlparser, "json", "dumps"),
        "yaml.dump": module_func(odmlparser, "yaml", "dump"),
        "ODMLWriter.to_string": class_attr(odmlparser.ODMLWriter, "to_string"),
        "RDFWriter.get_rdf_str": class_attr(rdf_converter.RDFWriter, "get_rdf_str"),
        "RDFWriter.convert_to_rdf": class_attr(rdf_converter.RDFWriter, "convert_to_rdf"),
        "rdflib.Graph.serialize": class_attr(rdflib.Graph, "serialize"),
    }


SITE_NAMES = ["XMLWriter.__str__", "XMLWriter.save_element", "lxml.tounicode", "DictWriter.to_dict", "json.dumps",
              "yaml.dump", "ODMLWriter.to_string", "RDFWriter.get_rdf_str", "RDFWriter.convert_to_rdf",
              "rdflib.Graph.serialize"]


@contextlib.contextmanager
def site(name, raise_at=None, counter=None):
    """Wrap call site `name`: count calls into counter[name]; raise InjectedFault at call number
    raise_at (1-based) when given."""
    get, put, restore, call = _sites()[name]
    orig = get()
    n = [0]

    def wrapper(*a, **k):
        n[0] += 1
        if counter is not None:
            counter[name] = n[0]
        if raise_at is not None and n[0] == raise_at:
            raise InjectedFault("injected fault at %s call %d" % (name, n[0]))
        return call(orig, *a, **k)
    put(wrapper)
    try:
        yield n
    finally:
        restore(orig)


@contextlib.contextmanager
def record_all(counter):
    with contextlib.ExitStack() as st:
        for name in SITE_NAMES:
            st.enter_context(site(name, counter=counter))
        yield counter
