"""Known-findings matcher (DESIGN 2.10).  The file is read-only at run time."""
import fnmatch
import json
import os

from . import env

PATH = os.path.join(env.VERIF, "known_findings.json")


def load():
    if not os.path.exists(PATH):
        return []
    with open(PATH) as f:
        data = json.load(f)
    return [e for e in data.get("findings", [])]


def _match_value(want, have):
    """want: scalar (equality, '*' wildcards for strings), list (any of), or dict of operators."""
    if isinstance(want, dict):
        for op, arg in want.items():
            if op == "any_of":         # have is a list; some element is in arg
                if not isinstance(have, list) or not any(h in arg for h in have):
                    return False
            elif op == "all_in":       # have is a list; every element is in arg
                if not isinstance(have, list) or not all(h in arg for h in have):
                    return False
            elif op == "contains":     # have is a list containing every element of arg
                if not isinstance(have, list) or not all(a in have for a in arg):
                    return False
            elif op == "not":
                if _match_value(arg, have):
                    return False
            elif op == "present":
                if (have is not None) != bool(arg):
                    return False
            else:
                raise env.HarnessError("unknown matcher operator %r" % op)
        return True
    if isinstance(want, list):
        return any(_match_value(w, have) for w in want)
    if isinstance(want, str) and isinstance(have, str) and ("*" in want or "?" in want):
        return fnmatch.fnmatchcase(have, want)
    return want == have


def matches(entry, prop, check, desc):
    if entry.get("property") != prop:
        return False
    if entry.get("check") not in (None, "*", check):
        return False
    for key, want in entry.get("match", {}).items():
        if not _match_value(want, desc.get(key)):
            return False
    return True


def find(entries, prop, check, desc):
    for e in entries:
        if matches(e, prop, check, desc):
            return e
    return None
