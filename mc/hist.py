"""Explicit-state breadth-first search over operation histories of real objects (DESIGN 2.4).

A state is the shortest history that reaches it; it is materialised by replaying that history
on fresh objects through the public API.  Each transition applies ONE real public operation
to a structural copy of the materialised objects and evaluates the property's oracle.
"""
import collections
import importlib

from . import env, par
from .report import failure, class_key


def expand_chunk(packed):
    """Worker: expand a chunk of frontier states.

    packed = (modname, cfg, histories).  The check module provides
      alphabet(pool, cfg, history)   -> list of ops
      oracle(pool_before, pool_after, op, outcome, cfg, ctx) -> list of (clause, detail, prune)
      and uses checks.treeops for materialise / copy / canon.
    Returns successor histories with canonical keys, failures and counters."""
    modname, cfg, histories = packed
    mod = importlib.import_module(modname)
    T = mod.OPS
    out = {"succ": [], "failures": [], "transitions": 0, "nontrivial": 0,
           "outcomes": collections.Counter(), "pruned": 0, "samples": []}
    seen_fail = {}
    timeouts = {}
    for hist in histories:
        env.reset_globals(env.SEED)
        base = T.materialise(hist)
        base_key = T.canon_state(base)
        ops = mod.alphabet(base, cfg, hist)
        for op in ops:
            if timeouts.get(op[0], 0) >= 2:
                # this kind of operation keeps running into the watchdog: do not spend 5 s on each instance
                out["skipped_after_timeouts"] = out.get("skipped_after_timeouts", 0) + 1
                continue
            env.UUIDS.reset(env.SEED + 7919)
            try:
                pool = T.copy_pool(base)
            except KeyError:
                pool = T.materialise(hist)
            pre = mod.pre_observe(pool, op, cfg)

            def step():
                return T.apply_op(pool, op)
            try:
                outcome = env.with_watchdog(step, 5)
            except env.Timeout:
                outcome = ("raise", "<did-not-terminate>")
                timeouts[op[0]] = timeouts.get(op[0], 0) + 1
            out["transitions"] += 1
            out["outcomes"][op[0] + ":" + (outcome[0] if outcome[0] == "ok" else outcome[1])] += 1
            try:
                verdicts = env.with_watchdog(lambda: mod.oracle(pre, pool, op, outcome, cfg), 5)
            except env.Timeout:
                verdicts = [("query-does-not-terminate", "oracle queries did not terminate", True)]
            prune = False
            for clause, detail, pr in verdicts:
                prune = prune or pr
                if clause is None:
                    continue
                desc = T.describe(base, op, outcome, clause)
                f = failure(mod.CHECK, desc, {"history": hist, "op": op, "cfg": cfg},
                            observed=detail, explain="after %r from history %r: %s" % (op, hist, detail))
                k = class_key(f)
                if k in seen_fail:
                    seen_fail[k]["count"] += 1
                else:
                    f["count"] = 1
                    seen_fail[k] = f
                    out["failures"].append(f)
            if prune:
                out["pruned"] += 1
                continue
            key = T.canon_state(pool)
            if key != base_key or outcome[0] != "ok":
                out["nontrivial"] += 1
            if key != base_key:
                out["succ"].append((key, hist + [op]))
            if len(out["samples"]) < 1:
                out["samples"].append({"history": hist, "op": op, "outcome": list(outcome)})
    out["outcomes"] = dict(out["outcomes"])
    return out


def bfs(run, modname, starts, plan, jobs=None, state_cap=None):
    """plan: list of (depth_label, cfg) — one entry per BFS level; cfg selects the alphabet
    level for the expansion of that level's frontier."""
    mod = importlib.import_module(modname)
    T = mod.OPS
    seen = {}
    frontier = []
    for h in starts:
        pool = T.materialise(h)
        T.self_check_copy(h)
        k = T.canon_state(pool)
        if k not in seen:
            seen[k] = h
            frontier.append(h)
    run.states = len(seen)
    pruned_total = 0
    levels = []
    for depth, cfg in enumerate(plan, 1):
        if not frontier:
            break
        if state_cap and len(frontier) > state_cap:
            run.caps_hit.append("frontier of depth %d capped at %d of %d states" % (
                depth, state_cap, len(frontier)))
            frontier = frontier[:state_cap]
        parts = par.chunks(frontier, (jobs or par.JOBS) * 6)
        nxt = []
        trans = 0
        for res in par.pmap("mc.hist", "expand_chunk", [(modname, cfg, p) for p in parts], jobs=jobs):
            run.transitions += res["transitions"]
            run.evaluations += res["transitions"]
            run.nontrivial += res["nontrivial"]
            trans += res["transitions"]
            run.outcomes.update(res["outcomes"])
            run.add_failures(res["failures"])
            pruned_total += res["pruned"]
            if res.get("skipped_after_timeouts"):
                run.caps_hit.append("%d transition(s) of an operation kind that had timed out twice in a chunk were skipped"
                                    % res["skipped_after_timeouts"])
            for s in res["samples"]:
                if len(run.samples) < 6:
                    run.samples.append(s)
            for k, h in res["succ"]:
                if k not in seen:
                    seen[k] = h
                    nxt.append(h)
        nxt.sort(key=lambda h: repr(h))       # deterministic order whatever the worker timing
        levels.append({"depth": depth, "alphabet": cfg.get("level"), "expanded_states": len(frontier),
                       "transitions": trans, "new_states": len(nxt)})
        frontier = nxt
        run.states = len(seen)
    run.extra["levels"] = levels
    run.extra["pruned_ill_formed"] = pruned_total
    run.extra["unexpanded_frontier"] = len(frontier)
    # vacuity: operation kinds that only ever had one outcome
    per = collections.defaultdict(set)
    for k in run.outcomes:
        op, oc = k.split(":", 1)
        per[op].add(oc)
    run.extra["vacuity_single_outcome_ops"] = sorted(o for o, s in per.items() if len(s) < 2)
    return seen
