"""Parallel execution of cases in long-lived worker processes (DESIGN 2.1)."""
import collections
import importlib
import multiprocessing
import os
import traceback

from . import env

JOBS = int(os.environ.get("VERIF_JOBS", "0") or 0) or min(16, os.cpu_count() or 1)


def _init(sync_threads):
    env.install(silence=True, sync_threads=sync_threads)
    # a runaway case (e.g. a Section merged into itself) must end in MemoryError, not in swapping
    try:
        import resource
        lim = int(os.environ.get("VERIF_WORKER_MEM_GB", "3")) * (1 << 30)
        resource.setrlimit(resource.RLIMIT_AS, (lim, lim))
    except Exception:
        pass


def _call(packed):
    modname, fname, arg = packed
    mod = importlib.import_module(modname)
    try:
        return ("ok", getattr(mod, fname)(arg))
    except env.Timeout:
        return ("err", "watchdog expired outside a case in %s.%s" % (modname, fname))
    except BaseException:
        return ("err", traceback.format_exc())


def pmap(modname, fname, args, jobs=None, sync_threads=True, maxtasks=None):
    """Unordered parallel map of module-level function `modname.fname` over args."""
    jobs = jobs or JOBS
    args = list(args)
    # VERIF_SEED rotates the hand-out order; it never changes what is explored
    if args:
        r = env.SEED % len(args)
        args = args[r:] + args[:r]
    if jobs <= 1 or len(args) <= 1:
        _init(sync_threads)
        for a in args:
            tag, res = _call((modname, fname, a))
            if tag == "err":
                raise env.HarnessError(res)
            yield res
        return
    ctx = multiprocessing.get_context("fork")
    pool = ctx.Pool(jobs, initializer=_init, initargs=(sync_threads,), maxtasksperchild=maxtasks)
    try:
        for tag, res in pool.imap_unordered(_call, [(modname, fname, a) for a in args]):
            if tag == "err":
                raise env.HarnessError(res)
            yield res
    finally:
        pool.terminate()
        pool.join()


def chunks(items, n):
    items = list(items)
    size = max(1, (len(items) + n - 1) // n)
    return [items[i:i + size] for i in range(0, len(items), size)]


# ------------------------------------------------------------------ generic case runner

def run_cases_chunk(packed):
    """Worker side: run `module.run_case` over a chunk of cases.

    run_case(case) returns a dict: failures (list), outcomes (iterable of labels),
    nontrivial (bool/int), execs (int, executions of the implementation), and optionally
    states (int)."""
    modname, cases = packed
    mod = importlib.import_module(modname)
    out = {"evaluations": 0, "states": 0, "transitions": 0, "nontrivial": 0,
           "outcomes": collections.Counter(), "failures": [], "samples": []}
    seen = {}
    timeouts = 0
    for case in cases:
        if timeouts >= 2:
            # two cases of this chunk did not terminate: do not burn the budget on the rest
            out.setdefault("skipped_after_timeouts", 0)
            out["skipped_after_timeouts"] += 1
            continue
        env.reset_globals(env.SEED)
        try:
            res = env.with_watchdog(lambda: mod.run_case(case), getattr(mod, "WATCHDOG_S", 20))
        except env.Timeout:
            timeouts += 1
            from .report import failure
            res = {"failures": [failure("watchdog", {"clause": "did-not-terminate",
                                                     "layer": case.get("layer") if isinstance(case, dict) else None},
                                        case, explain="case did not terminate")],
                   "outcomes": ["<timeout>"], "nontrivial": 1, "execs": 1}
        out["states"] += res.get("states", 1)
        out["evaluations"] += res.get("execs", 1)
        out["transitions"] += res.get("execs", 1)
        out["nontrivial"] += int(res.get("nontrivial", 0))
        out["outcomes"].update(res.get("outcomes", ()))
        for f in res.get("failures", ()):
            from .report import class_key
            k = class_key(f)
            if k in seen:
                seen[k]["count"] += 1
            else:
                f["count"] = 1
                seen[k] = f
                out["failures"].append(f)
        if len(out["samples"]) < 2:
            out["samples"].append(case)
    out["outcomes"] = dict(out["outcomes"])
    return out


def run_cases(run, modname, cases, jobs=None, nchunks=None, sync_threads=True):
    cases = list(cases)
    jobs = jobs or JOBS
    parts = chunks(cases, nchunks or jobs * 8)
    for part in pmap("mc.par", "run_cases_chunk", [(modname, p) for p in parts], jobs=jobs,
                     sync_threads=sync_threads):
        run.merge(part)
