"""Collecting results of a check run; evidence, replay artefacts, verdict lines (DESIGN 2.1, 2.8-2.10)."""
import collections
import hashlib
import json
import os
import time

from . import env, findings
from .snapshot import canon

MAX_VIOLATION_LINES = 20
MAX_REPRODUCED = 30          # violation classes beyond this are written out without the double replay
MAX_REPLAY_FILES = 200


def failure(check, desc, case, observed=None, expected=None, explain=""):
    """A failing case reduced to its description (desc) in the alphabet's own terms."""
    return {"check": check, "desc": desc, "case": case, "observed": observed,
            "expected": expected, "explain": explain}


def class_key(f):
    return f["check"] + "|" + canon(f["desc"])


class Run(object):
    def __init__(self, prop, tier, level, rule, assumptions=()):
        self.prop = prop
        self.tier = tier
        self.level = level
        self.rule = rule
        self.assumptions = list(assumptions)
        self.t0 = time.time()
        self.evaluations = 0          # executions of the implementation
        self.states = 0               # distinct states / distinct inputs
        self.transitions = 0          # explored transitions / (input x configuration) runs
        self.nontrivial = 0
        self.outcomes = collections.Counter()
        self.samples = []
        self.bounds = {}
        self.caps_hit = []
        self.layers = {}
        self.exhaustive = True
        self.extra = {}
        self.classes = collections.OrderedDict()   # class key -> first failure
        self.class_counts = collections.Counter()
        self.replay_watchdog_s = 30

    # ------------------------------------------------------------------ accumulation
    def add_failures(self, fails):
        for f in fails:
            k = class_key(f)
            self.class_counts[k] += f.get("count", 1)
            if k not in self.classes:
                self.classes[k] = f

    def merge(self, part):
        """part: dict returned by a worker chunk."""
        self.evaluations += part.get("evaluations", 0)
        self.states += part.get("states", 0)
        self.transitions += part.get("transitions", 0)
        self.nontrivial += part.get("nontrivial", 0)
        self.outcomes.update(part.get("outcomes", {}))
        self.add_failures(part.get("failures", []))
        if part.get("skipped_after_timeouts"):
            self.caps_hit.append("%d case(s) skipped in a chunk after two watchdog expiries" %
                                 part["skipped_after_timeouts"])
        for s in part.get("samples", []):
            if len(self.samples) < 6:
                self.samples.append(s)

    def layer(self, name, **info):
        self.layers[name] = info

    # ------------------------------------------------------------------ verdict
    def finish(self, reproduce=None):
        """Match failures against the known findings, write artefacts, print lines.

        reproduce: callable(failure) -> list of failures obtained by re-running the failure's
        case in this process (used by the reproduction guard)."""
        known = findings.load()
        violations, known_hit = [], collections.OrderedDict()
        for k, f in self.classes.items():
            e = findings.find(known, self.prop, f["check"], f["desc"])
            if e is not None:
                known_hit.setdefault(e["id"], {"entry": e, "first": f, "cases": 0})
                known_hit[e["id"]]["cases"] += self.class_counts[k]
            else:
                violations.append((k, f))

        lines = []
        for fid, h in known_hit.items():
            lines.append("KNOWN-FINDING: property=%s %s [%s; %d case(s) in this run]" % (
                self.prop, h["entry"]["what"], fid, h["cases"]))
        replay_dir = os.path.join(os.environ.get("VERIF_REPLAY_DIR") or
                                  os.path.join(env.VERIF, "replays"), self.prop)
        if os.path.isdir(replay_dir):
            for old in os.listdir(replay_dir):        # artefacts of earlier runs are stale
                if old.endswith(".json"):
                    os.unlink(os.path.join(replay_dir, old))
        n_viol = 0
        for k, f in violations:
            rec = dict(f)
            rec["property"] = self.prop
            rec["cases_in_class"] = self.class_counts[k]
            if reproduce is not None and n_viol < MAX_REPRODUCED:
                again = []
                for _ in range(2):
                    try:
                        again.append(sorted(class_key(x) for x in env.with_watchdog(
                            lambda: reproduce(f), self.replay_watchdog_s)))
                    except env.Timeout:
                        again.append(["<replay did not terminate within %ds>" % self.replay_watchdog_s])
                    except Exception as exc:  # pragma: no cover
                        again.append(["<replay raised %s: %s>" % (type(exc).__name__, exc)])
                rec["reproduced"] = [k in a for a in again]
                rec["replays_identical"] = again[0] == again[1]
            n_viol += 1
            if n_viol > MAX_REPLAY_FILES:
                continue
            os.makedirs(replay_dir, exist_ok=True)
            name = hashlib.sha1(k.encode()).hexdigest()[:12] + ".json"
            path = os.path.join(replay_dir, name)
            with open(path, "w") as fh:
                json.dump(rec, fh, indent=1, sort_keys=True, default=repr)
            if n_viol <= MAX_VIOLATION_LINES:
                lines.append("VIOLATION property=%s replay=%s" % (self.prop, path))
                lines.append("  # %s %s :: %s" % (f["check"], canon(f["desc"])[:300],
                                                  (f.get("explain") or "")[:300]))
        if n_viol > MAX_VIOLATION_LINES:
            lines.append("  # ... %d further violation classes (see evidence)" %
                         (n_viol - MAX_VIOLATION_LINES))
        self._write_evidence(n_viol, known_hit, known, violations)
        for ln in lines:
            env.say(ln)
        env.say("%s %s: %s  states=%d transitions=%d evaluations=%d nontrivial=%d "
                "violation_classes=%d known_findings_hit=%d wall=%.1fs" % (
                    self.prop, self.tier, "FAIL" if n_viol else "ok", self.states,
                    self.transitions, self.evaluations, self.nontrivial, n_viol,
                    len(known_hit), time.time() - self.t0))
        return 1 if n_viol else 0

    def _write_evidence(self, n_viol, known_hit, known, violations):
        reached = set(known_hit)
        cov = {
            "states": max(self.states, 0),
            "transitions": max(self.transitions, 0),
            "traces_validated_against_impl": self.transitions,
            "evaluations": self.evaluations,
            "distinct_nontrivial": self.nontrivial,
            "rule": self.rule,
            "samples": self.samples[:6] or ["<no case was executed>"],
            "exhaustive": bool(self.exhaustive and not self.caps_hit),
            "bounds": self.bounds,
            "caps_hit": self.caps_hit,
            "layers": self.layers,
            "outcome_histogram": dict(sorted(self.outcomes.items())),
            "distinct_outcomes": len(self.outcomes),
            "known_findings_reached": {k: v["cases"] for k, v in known_hit.items()},
            "findings_not_reached": sorted(e["id"] for e in known
                                           if e.get("property") == self.prop
                                           and e["id"] not in reached),
            "violation_classes": [{"check": f["check"], "desc": f["desc"],
                                   "cases": self.class_counts[k]} for k, f in violations[:50]],
            "how_traces_were_validated": "every explored case/transition is an execution of "
                                         "the implementation in VERIF_REPO whose observation "
                                         "was compared with the oracle",
        }
        cov.update(self.extra)
        ev = {
            "property_id": self.prop,
            "tier": self.tier,
            "seed": env.SEED,
            "level": self.level,
            "coverage": cov,
            "assumptions": self.assumptions,
            "wall_s": round(time.time() - self.t0, 2),
            "violations": n_viol,
            "repo": env.REPO,
        }
        validate_evidence(ev)
        path = os.path.join(os.environ.get("VERIF_EVIDENCE_DIR") or os.path.join(env.VERIF, "evidence"),
                            "%s.json" % self.prop)
        os.makedirs(os.path.dirname(path), exist_ok=True)
        tmp = path + ".tmp%d" % os.getpid()
        with open(tmp, "w") as fh:
            json.dump(ev, fh, indent=1, sort_keys=True, default=repr)
            fh.write("\n")
        os.replace(tmp, path)


def validate_evidence(ev):
    """Small built-in validator for the parts of EVIDENCE.schema.json that can go wrong."""
    for k in ("property_id", "tier", "seed", "level", "coverage", "wall_s"):
        if k not in ev:
            raise env.HarnessError("evidence lacks %s" % k)
    if ev["tier"] not in ("quick", "thorough"):
        raise env.HarnessError("bad tier")
    cov = ev["coverage"]
    if ev["level"] == "model_checking":
        if cov["states"] < 1 or cov["transitions"] < 1 or not cov["samples"]:
            raise env.HarnessError("model_checking evidence needs states, transitions, samples")
    else:
        if cov["evaluations"] < 1 or cov["distinct_nontrivial"] < 2 or not cov["samples"]:
            raise env.HarnessError("evidence needs evaluations>=1, distinct_nontrivial>=2")
    if not isinstance(ev["seed"], int):
        raise env.HarnessError("seed must be an integer")
