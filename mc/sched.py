"""Controlled scheduler for real threads: stateless exploration with iterative preemption
bounding (DESIGN 2.6).

Exactly one controlled thread runs at any time (baton passing over one semaphore per thread).
A *scheduling point* is reached immediately before an instrumented operation (table access,
thread start/join/exit); there the explorer decides which enabled thread continues.

    run_one(body, prefix)          one execution: replays `prefix`, then always choice 0
    explore(make_body, bound)      all executions with at most `bound` preemptions

Canonical order of the enabled set at a point: the running thread first if it is still enabled,
then the other enabled threads by ascending id.  Choice 0 therefore means "keep running" (or, at
a blocking point, "lowest id").  Switching away from a still-enabled thread costs one preemption;
switches at join/exit are free.
"""
import threading as _threading

from . import env

_real_Thread = _threading.Thread
import _thread


class _Baton(object):
    """Binary semaphore on a raw lock (much cheaper than threading.Semaphore)."""

    def __init__(self):
        self._l = _thread.allocate_lock()
        self._l.acquire()

    def acquire(self):
        self._l.acquire()

    def release(self):
        try:
            self._l.release()
        except RuntimeError:      # already released (abort path)
            pass


_real_Semaphore = lambda n: _Baton()
_real_Event = _threading.Event

try:
    _threading.stack_size(512 * 1024)     # thread creation is the dominant cost of an execution
except (ValueError, RuntimeError):
    pass

CURRENT = None          # the Scheduler of the execution in progress (one per process at a time)
MAX_YIELDS = 2000       # horizon for polling loops: more yields than this in one execution = livelock


class Abort(BaseException):
    """Raised inside controlled threads to unwind them after the execution was aborted."""


class CThread(object):
    """Stands in for threading.Thread inside the library modules."""

    def __init__(self, group=None, target=None, name=None, args=(), kwargs=None, daemon=None):
        self.sched = CURRENT
        if self.sched is None:
            raise env.HarnessError("controlled Thread created outside a controlled execution")
        self.target, self.args, self.kwargs = target, args, kwargs or {}
        self.state = "new"          # new -> ready -> (joining) -> finished
        self.join_target = None
        self.sem = _real_Semaphore(0)
        self.exc = None
        self.tid = None
        self.os_thread = None
        self.name = name
        self.daemon = bool(daemon)
        self.can_run = None         # predicate of a thread in state "waiting" (lock, event, condition, sleep)
        self.timed = False          # the wait has a timeout: it may also end when nothing else can run
        self.woken_by_timeout = False

    # threading.Thread API the library might use
    def run(self):
        if self.target is not None:
            self.target(*self.args, **self.kwargs)

    def setDaemon(self, flag):
        self.daemon = bool(flag)

    def isDaemon(self):
        return self.daemon

    def getName(self):
        return self.name

    def setName(self, name):
        self.name = name

    @property
    def ident(self):
        return None if self.os_thread is None else self.os_thread.ident

    # -- API used by the library
    def start(self):
        s = self.sched
        if self.state != "new":
            raise RuntimeError("threads can only be started once")
        s.point("thread.start:before")
        self.tid = len(s.threads)
        s.threads.append(self)
        self.state = "ready"
        self.os_thread = _real_Thread(target=self._bootstrap, daemon=True)
        self.os_thread.start()
        s.point("thread.start:after")

    def join(self, timeout=None):
        s = self.sched
        if self.state == "new":
            raise RuntimeError("cannot join thread before it is started")
        if s is not CURRENT:
            if self.state == "finished":
                return
            raise env.HarnessError("join of a controlled thread of an earlier execution that never finished")
        me = s.running
        if me is self:
            raise RuntimeError("cannot join current thread")
        s.point("thread.join")
        if self.state != "finished":
            me.state, me.join_target = "joining", self
            s.block(me)                       # returns when scheduled again (target finished)
            me.state, me.join_target = "ready", None

    def is_alive(self):
        return self.state in ("ready", "joining", "waiting")

    # -- internals
    def _bootstrap(self):
        s = self.sched
        self.sem.acquire()                    # first run: wait for the baton
        if s.aborted:
            return
        try:
            self.run()
        except Abort:
            return
        except BaseException as exc:          # a real thread would print the traceback and die
            self.exc = exc
        self.state = "finished"
        try:
            s.exit(self)
        except Abort:
            pass


class Scheduler(object):
    def __init__(self, prefix=()):
        self.prefix = list(prefix)
        self.threads = []
        self.running = None
        self.points = []            # dicts: label, tid, n (enabled count), still (running still enabled), choice
        self.done = _real_Event()
        self.deadlock = False
        self.aborted = False
        self.error = None
        self.kinds = set()
        self.livelock = False

    # -- bookkeeping
    def enabled_others(self, me):
        out = []
        for t in self.threads:
            if t is me:
                continue
            if t.state == "ready" or (t.state == "joining" and t.join_target.state == "finished"):
                out.append(t)
            elif t.state == "waiting" and t.can_run():
                out.append(t)
        return out

    def timed_waiters(self):
        return [t for t in self.threads if t.state == "waiting" and t.timed]

    def _choose(self, label, me, still, cands=None):
        if cands is None:
            cands = ([me] if still else []) + self.enabled_others(me)
        i = len(self.points)
        if not cands:
            return None
        if i < len(self.prefix):
            c = self.prefix[i]
            if c >= len(cands):
                self.error = "replayed choice %d at point %d (%s) is out of range (%d enabled)" % (
                    c, i, label, len(cands))
                self._abort()
                raise Abort()
        else:
            c = 0
        self.points.append({"label": label, "tid": me.tid, "n": len(cands), "still": still, "choice": c})
        self.kinds.add(label.split(":")[0])
        return cands[c]

    def _abort(self):
        self.aborted = True
        self.done.set()
        for t in self.threads:       # let blocked threads unwind
            t.sem.release()

    def _switch(self, me, nxt, wait=True):
        self.running = nxt
        self.clock = getattr(self, "clock", 0) + 1
        nxt.last_run = self.clock
        nxt.sem.release()
        if wait:
            me.sem.acquire()
            if self.aborted:
                raise Abort()

    # -- called by the running thread
    def point(self, label):
        me = self.running
        if me is None or self.aborted:
            if self.aborted:
                raise Abort()
            return
        if _threading.current_thread() is not me.os_thread:
            raise env.HarnessError("scheduling point reached by a thread that does not hold the baton")
        nxt = self._choose(label, me, True)
        if nxt is not me:
            self._switch(me, nxt)

    def block(self, me):
        """me cannot continue (join on an unfinished thread, lock held by another thread, ...):
        somebody else must run.  When nobody can, the timeout of a timed wait fires (lowest thread
        id first); when there is none either, the execution is deadlocked."""
        nxt = self._choose("blocked", me, False)
        if nxt is None:
            nxt = self._fire_timeout()
            if nxt is me:
                return
        if nxt is None:
            self.deadlock = True
            self._abort()
            raise Abort()
        self._switch(me, nxt)

    def _fire_timeout(self):
        tw = self.timed_waiters()
        if not tw:
            return None
        t = tw[0]
        t.woken_by_timeout = True
        t.can_run = lambda: True
        self.timeouts_fired = getattr(self, "timeouts_fired", 0) + 1
        return t

    def wait(self, me, pred, timed=False):
        """The running thread waits until pred() holds (evaluated by the scheduler whenever it looks for
        enabled threads).  Returns True when pred held at wake-up, False when a timeout ended the wait."""
        me.state, me.can_run, me.timed, me.woken_by_timeout = "waiting", pred, timed, False
        try:
            self.block(me)
        finally:
            timeout = me.woken_by_timeout
            me.state, me.can_run, me.timed, me.woken_by_timeout = "ready", None, False, False
        return not timeout

    def yield_(self, label="yield"):
        """The running thread offers the processor (sleep, spin-wait): another enabled thread runs if
        there is one - at no preemption cost - and the yielding thread stays enabled."""
        me = self.running
        if me is None or self.aborted:
            if self.aborted:
                raise Abort()
            return
        self.yields = getattr(self, "yields", 0) + 1
        if self.yields > MAX_YIELDS:
            self.livelock = True
            self._abort()
            raise Abort()
        others = self.enabled_others(me)
        if not others:
            return
        # least recently run first, so that two polling threads cannot starve a third one
        others.sort(key=lambda t: (getattr(t, "last_run", 0), t.tid))
        me.state, me.can_run, me.timed = "waiting", (lambda: True), False
        try:
            nxt = self._choose(label, me, False, cands=others)
            self._switch(me, nxt)
        finally:
            me.state, me.can_run = "ready", None

    def exit(self, me):
        nxt = self._choose("thread.exit", me, False)
        if nxt is None:
            nxt = self._fire_timeout()
        if nxt is None:
            if any(t.state != "finished" for t in self.threads):
                self.deadlock = True
                self._abort()
            else:
                self.done.set()
            return
        self._switch(me, nxt, wait=False)


def run_one(body, prefix=(), timeout=20.0):
    """Run body() as controlled thread 0 under the given choice prefix.
    Returns the Scheduler (points, deadlock flag, threads with their escaped exceptions)."""
    global CURRENT
    s = Scheduler(prefix)
    CURRENT = s
    try:
        t0 = CThread(target=body)
        t0.tid = 0
        s.threads.append(t0)
        t0.state = "ready"
        t0.os_thread = _real_Thread(target=t0._bootstrap, daemon=True)
        t0.os_thread.start()
        s.running = t0
        t0.sem.release()
        if not s.done.wait(timeout):
            s.timed_out = True
            s._abort()
        else:
            s.timed_out = False
        for t in s.threads:
            if t.os_thread is not None:
                t.os_thread.join(2.0)
        s.leftover = sum(1 for t in s.threads if t.os_thread is not None and t.os_thread.is_alive())
    finally:
        CURRENT = None
    if s.error:
        raise env.HarnessError(s.error)
    return s


def preemptions(points, upto=None):
    n = 0
    for p in points[:upto]:
        if p["still"] and p["choice"] != 0:
            n += 1
    return n


def explore(execute, bound, max_executions=None, on_execution=None, roots=None):
    """Depth-first exploration of all schedules with <= bound preemptions.

    execute(prefix) -> Scheduler of one complete execution (must be deterministic given prefix).
    on_execution(sched, choices) is called for every execution.  Returns statistics."""
    stats = {"executions": 0, "points": 0, "max_points": 0, "capped": False, "by_preemptions": {}}
    stack = [list(r) for r in (roots if roots is not None else [[]])]
    while stack:
        prefix = stack.pop()
        if max_executions and stats["executions"] >= max_executions:
            stats["capped"] = True
            break
        s = execute(prefix)
        choices = [p["choice"] for p in s.points]
        if choices[:len(prefix)] != list(prefix):
            raise env.HarnessError("execution diverged from its prefix: %r vs %r" % (choices[:len(prefix)], prefix))
        stats["executions"] += 1
        stats["points"] += len(s.points)
        stats["max_points"] = max(stats["max_points"], len(s.points))
        npre = preemptions(s.points)
        stats["by_preemptions"][npre] = stats["by_preemptions"].get(npre, 0) + 1
        if on_execution:
            on_execution(s, choices)
        # alternatives at the points after the prefix (deepest first on the stack -> DFS)
        if len(prefix) > len(s.points):
            raise env.HarnessError("execution ended before its prefix was consumed")
        new = []
        cost = preemptions(s.points, len(prefix))
        for i in range(len(prefix), len(s.points)):
            p = s.points[i]
            for alt in range(1, p["n"]):
                c = cost + (1 if p["still"] else 0)
                if c <= bound:
                    new.append(choices[:i] + [alt])
            if p["still"] and p["choice"] != 0:
                cost += 1
        stack.extend(reversed(new))
    return stats


# --------------------------------------------------------------------------- instrumented tables

def _wrap(name, label):
    def method(self, *a, **k):
        s = CURRENT
        if s is not None:
            s.point("%s.%s" % (self._table_name, label))
        return getattr(dict, name)(self, *a, **k)
    method.__name__ = name
    return method


class TableMixin(object):
    """dict operations as scheduling points; `_table_name` tells the tables apart."""
    _table_name = "table"


for _n, _l in (("__contains__", "in"), ("__getitem__", "get"), ("__setitem__", "set"), ("__delitem__", "del"),
               ("get", "get"), ("pop", "pop"), ("clear", "clear"), ("setdefault", "setdefault"),
               ("update", "update"), ("popitem", "pop"), ("keys", "iter"), ("values", "iter"),
               ("items", "iter"), ("__iter__", "iter"), ("__len__", "len")):
    setattr(TableMixin, _n, _wrap(_n, _l))


class LoadingTable(TableMixin, dict):
    _table_name = "loading"


# --------------------------------------------------------------------------- controlled synchronisation
#
# Stand-ins for threading.Lock / RLock / Event / Condition / Semaphore.  Under the baton-passing scheduler a
# thread that blocked on a *real* lock held by a descheduled thread would hang the execution; these model
# blocking instead: acquiring is a scheduling point, a thread that cannot proceed is disabled until it can,
# "nobody enabled" is a deadlock.  A wait with a timeout ends unsuccessfully only when no thread can run at all
# (the timer lands last; an earlier expiry is not explored).  Outside a controlled execution (module import,
# harness set-up) they behave like uncontended single-threaded primitives.

def _cur():
    s = CURRENT
    if s is None or s.running is None or s.aborted:
        if s is not None and s.aborted:
            raise Abort()
        return None, None
    return s, s.running


def _timed(blocking, timeout):
    return timeout is not None and timeout >= 0


class CLock(object):
    _reentrant = False

    def __init__(self):
        self.owner = None
        self.count = 0

    def acquire(self, blocking=True, timeout=-1):
        s, me = _cur()
        if s is None:
            if self.owner is None or (self._reentrant and self.owner == "outside"):
                self.owner, self.count = "outside", self.count + 1
                return True
            if not blocking:
                return False
            raise env.HarnessError("lock acquired outside a controlled execution while it is held")
        s.point("lock.acquire")
        if self.owner is None or (self._reentrant and self.owner is me):
            self.owner, self.count = me, self.count + 1
            return True
        if not blocking:
            return False
        if s.wait(me, lambda: self.owner is None, _timed(blocking, timeout)):
            self.owner, self.count = me, 1
            return True
        return False

    def release(self):
        s, me = _cur()
        if self.owner is None:
            raise RuntimeError("release unlocked lock")
        if self._reentrant and s is not None and self.owner is not me:
            raise RuntimeError("cannot release un-acquired lock")
        if s is not None:
            s.point("lock.release")
        self.count -= 1
        if self.count <= 0:
            self.owner, self.count = None, 0

    def locked(self):
        return self.owner is not None

    def __enter__(self):
        self.acquire()
        return self

    def __exit__(self, *exc):
        self.release()

    # used by CCondition
    def _release_all(self):
        n, self.owner, self.count = self.count, None, 0
        return n

    def _is_owned(self, me):
        return self.owner is me or (me is None and self.owner == "outside")


class CRLock(CLock):
    _reentrant = True


class CEvent(object):
    def __init__(self):
        self.flag = False

    def is_set(self):
        s, me = _cur()
        if s is not None:
            s.point("event.is_set")
        return self.flag

    isSet = is_set

    def set(self):
        s, me = _cur()
        if s is not None:
            s.point("event.set")
        self.flag = True

    def clear(self):
        s, me = _cur()
        if s is not None:
            s.point("event.clear")
        self.flag = False

    def wait(self, timeout=None):
        s, me = _cur()
        if s is None:
            if self.flag or timeout is not None:
                return self.flag
            raise env.HarnessError("Event.wait outside a controlled execution would block for ever")
        s.point("event.wait")
        if self.flag:
            return True
        return s.wait(me, lambda: self.flag, timeout is not None)


class CCondition(object):
    def __init__(self, lock=None):
        self.lock = lock if lock is not None else CRLock()
        if not isinstance(self.lock, CLock):
            raise env.HarnessError("Condition over a lock that is not controlled")
        self.waiters = []
        self.acquire, self.release = self.lock.acquire, self.lock.release

    def __enter__(self):
        return self.lock.__enter__()

    def __exit__(self, *exc):
        return self.lock.__exit__(*exc)

    def wait(self, timeout=None):
        s, me = _cur()
        if not self.lock._is_owned(me):
            raise RuntimeError("cannot wait on un-acquired lock")
        if s is None:
            if timeout is not None:
                return False
            raise env.HarnessError("Condition.wait outside a controlled execution would block for ever")
        s.point("cond.wait")
        rec = {"notified": False}
        self.waiters.append(rec)
        depth = self.lock._release_all()
        ok = s.wait(me, lambda: rec["notified"], timeout is not None)
        if not ok and rec in self.waiters:
            self.waiters.remove(rec)
        if self.lock.owner is not None:
            s.wait(me, lambda: self.lock.owner is None, False)
        self.lock.owner, self.lock.count = me, depth
        return ok

    def wait_for(self, predicate, timeout=None):
        result = predicate()
        while not result:
            if not self.wait(timeout) and timeout is not None:
                return predicate()
            result = predicate()
        return result

    def notify(self, n=1):
        s, me = _cur()
        if not self.lock._is_owned(me):
            raise RuntimeError("cannot notify on un-acquired lock")
        if s is not None:
            s.point("cond.notify")
        for rec in self.waiters[:n]:
            rec["notified"] = True
        del self.waiters[:n]

    def notify_all(self):
        self.notify(len(self.waiters))

    notifyAll = notify_all


class CSemaphore(object):
    _bounded = False

    def __init__(self, value=1):
        if value < 0:
            raise ValueError("semaphore initial value must be >= 0")
        self.value = self.initial = value

    def acquire(self, blocking=True, timeout=None):
        s, me = _cur()
        if s is None:
            if self.value > 0:
                self.value -= 1
                return True
            if not blocking:
                return False
            raise env.HarnessError("semaphore acquired outside a controlled execution while it is exhausted")
        s.point("sem.acquire")
        if self.value > 0:
            self.value -= 1
            return True
        if not blocking:
            return False
        if s.wait(me, lambda: self.value > 0, timeout is not None):
            self.value -= 1
            return True
        return False

    def release(self, n=1):
        s, me = _cur()
        if self._bounded and self.value + n > self.initial:
            raise ValueError("Semaphore released too many times")
        if s is not None:
            s.point("sem.release")
        self.value += n

    def __enter__(self):
        self.acquire()
        return self

    def __exit__(self, *exc):
        self.release()


class CBoundedSemaphore(CSemaphore):
    _bounded = True


_REAL_KINDS = None


def controlled_twin(obj):
    """A controlled stand-in for a real synchronisation object created before the shim was in place (module or
    class level `threading.Lock()`), or None when obj is none of them."""
    global _REAL_KINDS
    if _REAL_KINDS is None:
        _REAL_KINDS = [(type(_threading.Lock()), CLock), (type(_threading.RLock()), CRLock),
                       (_threading.Condition, None), (_threading.Event, CEvent),
                       (_threading.BoundedSemaphore, None), (_threading.Semaphore, None)]
    for real, twin in _REAL_KINDS:
        if type(obj) is real or (isinstance(real, type) and isinstance(obj, real) and real.__module__ == "threading"):
            if real is _threading.Condition:
                return CCondition(controlled_twin(obj._lock))
            if real is _threading.BoundedSemaphore:
                return CBoundedSemaphore(obj._initial_value)
            if real is _threading.Semaphore:
                return CSemaphore(obj._value)
            return twin()
    return None


def adopt_primitives(*holders):
    """Replace real synchronisation objects found in the namespaces of the given modules / classes / instances by
    controlled ones (fresh, i.e. unlocked).  Returns the number replaced."""
    n = 0
    for h in holders:
        ns = getattr(h, "__dict__", None)
        if ns is None:
            continue
        for k, v in list(ns.items()):
            if isinstance(v, (CLock, CEvent, CCondition, CSemaphore)):
                twin = type(v)(*(([v.initial] if isinstance(v, CSemaphore) else []))) if not isinstance(v, CCondition) \
                    else CCondition(type(v.lock)())
            else:
                try:
                    twin = controlled_twin(v)
                except Exception:
                    twin = None
            if twin is not None:
                try:
                    setattr(h, k, twin)
                    n += 1
                except (AttributeError, TypeError):
                    pass
    return n


class TimeShim(object):
    """Replaces the `time` module inside the loader modules: sleep() offers the processor to the other
    threads instead of waiting (polling loops stay finite: see Scheduler.yield_)."""

    def __init__(self, real):
        self._real = real

    def sleep(self, seconds=0):
        s = CURRENT
        if s is not None and s.running is not None:
            s.yield_("sleep")

    def __getattr__(self, name):
        return getattr(self._real, name)


class ThreadingShim(object):
    """Replaces the `threading` module inside odml.terminology / odml.templates."""
    Thread = CThread
    Lock = CLock
    RLock = CRLock
    Event = CEvent
    Condition = CCondition
    Semaphore = CSemaphore
    BoundedSemaphore = CBoundedSemaphore

    def __getattr__(self, name):
        return getattr(_threading, name)
