"""Controlled scheduler for real threads: stateless exploration with iterative preemption
bounding (DESIGN 2.6).

Exactly one controlled thread runs at any time (baton passing over one semaphore per thread).
A *scheduling point* is reached immediately before an instrumented operation (table access,
thread start/join/exit); there the explorer decides which enabled thread continues.

    run_one(body, prefix)          one execution: replays `prefix`, then always choice 0
    explore(make_body, bound)      all executions with at most `bound` preemptions

Canonical order of the enabled set at a point: the running thread first if it is still enabled,
then the other enabled threads by ascending id.  Choice 0 therefore means "keep running" (or, at
a blocking point, "lowest id").  Switching away from a still-enabled thread costs one preemption;
switches at join/exit are free.
"""
import threading as _threading

from . import env

_real_Thread = _threading.Thread
import _thread


class _Baton(object):
    """Binary semaphore on a raw lock (much cheaper than threading.Semaphore)."""

    def __init__(self):
        self._l = _thread.allocate_lock()
        self._l.acquire()

    def acquire(self):
        self._l.acquire()

    def release(self):
        try:
            self._l.release()
        except RuntimeError:      # already released (abort path)
            pass


_real_Semaphore = lambda n: _Baton()
_real_Event = _threading.Event

try:
    _threading.stack_size(512 * 1024)     # thread creation is the dominant cost of an execution
except (ValueError, RuntimeError):
    pass

CURRENT = None          # the Scheduler of the execution in progress (one per process at a time)


class Abort(BaseException):
    """Raised inside controlled threads to unwind them after the execution was aborted."""


class CThread(object):
    """Stands in for threading.Thread inside the library modules."""

    def __init__(self, group=None, target=None, name=None, args=(), kwargs=None, daemon=None):
        self.sched = CURRENT
        if self.sched is None:
            raise env.HarnessError("controlled Thread created outside a controlled execution")
        self.target, self.args, self.kwargs = target, args, kwargs or {}
        self.state = "new"          # new -> ready -> (joining) -> finished
        self.join_target = None
        self.sem = _real_Semaphore(0)
        self.exc = None
        self.tid = None
        self.os_thread = None
        self.name = name

    # -- API used by the library
    def start(self):
        s = self.sched
        if self.state != "new":
            raise RuntimeError("threads can only be started once")
        s.point("thread.start:before")
        self.tid = len(s.threads)
        s.threads.append(self)
        self.state = "ready"
        self.os_thread = _real_Thread(target=self._bootstrap, daemon=True)
        self.os_thread.start()
        s.point("thread.start:after")

    def join(self, timeout=None):
        s = self.sched
        if self.state == "new":
            raise RuntimeError("cannot join thread before it is started")
        me = s.running
        if me is self:
            raise RuntimeError("cannot join current thread")
        s.point("thread.join")
        if self.state != "finished":
            me.state, me.join_target = "joining", self
            s.block(me)                       # returns when scheduled again (target finished)
            me.state, me.join_target = "ready", None

    def is_alive(self):
        return self.state in ("ready", "joining")

    # -- internals
    def _bootstrap(self):
        s = self.sched
        self.sem.acquire()                    # first run: wait for the baton
        if s.aborted:
            return
        try:
            self.target(*self.args, **self.kwargs)
        except Abort:
            return
        except BaseException as exc:          # a real thread would print the traceback and die
            self.exc = exc
        self.state = "finished"
        try:
            s.exit(self)
        except Abort:
            pass


class Scheduler(object):
    def __init__(self, prefix=()):
        self.prefix = list(prefix)
        self.threads = []
        self.running = None
        self.points = []            # dicts: label, tid, n (enabled count), still (running still enabled), choice
        self.done = _real_Event()
        self.deadlock = False
        self.aborted = False
        self.error = None
        self.kinds = set()

    # -- bookkeeping
    def enabled_others(self, me):
        out = []
        for t in self.threads:
            if t is me:
                continue
            if t.state == "ready" or (t.state == "joining" and t.join_target.state == "finished"):
                out.append(t)
        return out

    def _choose(self, label, me, still):
        cands = ([me] if still else []) + self.enabled_others(me)
        i = len(self.points)
        if not cands:
            return None
        if i < len(self.prefix):
            c = self.prefix[i]
            if c >= len(cands):
                self.error = "replayed choice %d at point %d (%s) is out of range (%d enabled)" % (
                    c, i, label, len(cands))
                self._abort()
                raise Abort()
        else:
            c = 0
        self.points.append({"label": label, "tid": me.tid, "n": len(cands), "still": still, "choice": c})
        self.kinds.add(label.split(":")[0])
        return cands[c]

    def _abort(self):
        self.aborted = True
        self.done.set()
        for t in self.threads:       # let blocked threads unwind
            t.sem.release()

    def _switch(self, me, nxt, wait=True):
        self.running = nxt
        nxt.sem.release()
        if wait:
            me.sem.acquire()
            if self.aborted:
                raise Abort()

    # -- called by the running thread
    def point(self, label):
        me = self.running
        if me is None or self.aborted:
            if self.aborted:
                raise Abort()
            return
        if _threading.current_thread() is not me.os_thread:
            raise env.HarnessError("scheduling point reached by a thread that does not hold the baton")
        nxt = self._choose(label, me, True)
        if nxt is not me:
            self._switch(me, nxt)

    def block(self, me):
        """me cannot continue (join on an unfinished thread): somebody else must run."""
        nxt = self._choose("blocked", me, False)
        if nxt is None:
            self.deadlock = True
            self._abort()
            raise Abort()
        self._switch(me, nxt)

    def exit(self, me):
        nxt = self._choose("thread.exit", me, False)
        if nxt is None:
            if any(t.state != "finished" for t in self.threads):
                self.deadlock = True
                self._abort()
            else:
                self.done.set()
            return
        self._switch(me, nxt, wait=False)


def run_one(body, prefix=(), timeout=20.0):
    """Run body() as controlled thread 0 under the given choice prefix.
    Returns the Scheduler (points, deadlock flag, threads with their escaped exceptions)."""
    global CURRENT
    s = Scheduler(prefix)
    CURRENT = s
    try:
        t0 = CThread(target=body)
        t0.tid = 0
        s.threads.append(t0)
        t0.state = "ready"
        t0.os_thread = _real_Thread(target=t0._bootstrap, daemon=True)
        t0.os_thread.start()
        s.running = t0
        t0.sem.release()
        if not s.done.wait(timeout):
            s.timed_out = True
            s._abort()
        else:
            s.timed_out = False
        for t in s.threads:
            if t.os_thread is not None:
                t.os_thread.join(2.0)
        s.leftover = sum(1 for t in s.threads if t.os_thread is not None and t.os_thread.is_alive())
    finally:
        CURRENT = None
    if s.error:
        raise env.HarnessError(s.error)
    return s


def preemptions(points, upto=None):
    n = 0
    for p in points[:upto]:
        if p["still"] and p["choice"] != 0:
            n += 1
    return n


def explore(execute, bound, max_executions=None, on_execution=None, roots=None):
    """Depth-first exploration of all schedules with <= bound preemptions.

    execute(prefix) -> Scheduler of one complete execution (must be deterministic given prefix).
    on_execution(sched, choices) is called for every execution.  Returns statistics."""
    stats = {"executions": 0, "points": 0, "max_points": 0, "capped": False, "by_preemptions": {}}
    stack = [list(r) for r in (roots if roots is not None else [[]])]
    while stack:
        prefix = stack.pop()
        if max_executions and stats["executions"] >= max_executions:
            stats["capped"] = True
            break
        s = execute(prefix)
        choices = [p["choice"] for p in s.points]
        if choices[:len(prefix)] != list(prefix):
            raise env.HarnessError("execution diverged from its prefix: %r vs %r" % (choices[:len(prefix)], prefix))
        stats["executions"] += 1
        stats["points"] += len(s.points)
        stats["max_points"] = max(stats["max_points"], len(s.points))
        npre = preemptions(s.points)
        stats["by_preemptions"][npre] = stats["by_preemptions"].get(npre, 0) + 1
        if on_execution:
            on_execution(s, choices)
        # alternatives at the points after the prefix (deepest first on the stack -> DFS)
        if len(prefix) > len(s.points):
            raise env.HarnessError("execution ended before its prefix was consumed")
        new = []
        cost = preemptions(s.points, len(prefix))
        for i in range(len(prefix), len(s.points)):
            p = s.points[i]
            for alt in range(1, p["n"]):
                c = cost + (1 if p["still"] else 0)
                if c <= bound:
                    new.append(choices[:i] + [alt])
            if p["still"] and p["choice"] != 0:
                cost += 1
        stack.extend(reversed(new))
    return stats


# --------------------------------------------------------------------------- instrumented tables

def _wrap(name, label):
    def method(self, *a, **k):
        s = CURRENT
        if s is not None:
            s.point("%s.%s" % (self._table_name, label))
        return getattr(dict, name)(self, *a, **k)
    method.__name__ = name
    return method


class TableMixin(object):
    """dict operations as scheduling points; `_table_name` tells the tables apart."""
    _table_name = "table"


for _n, _l in (("__contains__", "in"), ("__getitem__", "get"), ("__setitem__", "set"), ("__delitem__", "del"),
               ("get", "get"), ("pop", "pop"), ("clear", "clear"), ("setdefault", "setdefault"),
               ("update", "update"), ("popitem", "pop"), ("keys", "iter"), ("values", "iter"),
               ("items", "iter"), ("__iter__", "iter"), ("__len__", "len")):
    setattr(TableMixin, _n, _wrap(_n, _l))


class LoadingTable(TableMixin, dict):
    _table_name = "loading"


class ThreadingShim(object):
    """Replaces the `threading` module inside odml.terminology / odml.templates."""
    Thread = CThread

    def __getattr__(self, name):
        return getattr(_threading, name)
