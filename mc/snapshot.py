"""Canonical forms of odML objects (DESIGN 2.3).

Snapshots are plain JSON-able structures built through the public attribute getters only.
"""
import enum
import json

DOC_ATTRS = ("author", "version", "date", "repository")
SEC_ATTRS = ("name", "type", "definition", "reference", "repository", "link", "include",
             "sec_cardinality", "prop_cardinality")
PROP_ATTRS = ("name", "dtype", "unit", "uncertainty", "definition", "reference", "dependency",
              "dependency_value", "value_origin", "val_cardinality")


def atom(v):
    """Type-exact, JSON-able representation of an attribute or value."""
    if v is None:
        return None
    if isinstance(v, (list, tuple)):
        return [type(v).__name__] + [atom(x) for x in v]
    if isinstance(v, enum.Enum) and isinstance(v, str):
        return ["str", repr(v.value)]       # a dtype given as DType member equals the type name it stands for
    return [type(v).__name__, repr(v)]


def _get(obj, name):
    try:
        return atom(getattr(obj, name))
    except Exception as exc:  # a getter that raises is an observation, not a crash
        return ["<raises>", type(exc).__name__]


def kind_of(obj):
    import odml
    from odml.doc import BaseDocument
    from odml.section import BaseSection
    from odml.property import BaseProperty
    if isinstance(obj, BaseDocument):
        return "document"
    if isinstance(obj, BaseSection):
        return "section"
    if isinstance(obj, BaseProperty):
        return "property"
    return type(obj).__name__


def snap(obj, ids=True, identity=False, depth=0):
    """Snapshot of a Document, Section or Property with everything below it."""
    if depth > 64:
        return {"kind": "<too deep>"}
    k = kind_of(obj)
    out = {"kind": k}
    if ids:
        out["id"] = _get(obj, "id")
    if identity:
        out["@"] = id(obj)
    if k == "document":
        for a in DOC_ATTRS:
            out[a] = _get(obj, a)
        out["sections"] = [snap(s, ids, identity, depth + 1) for s in list.__iter__(obj.sections)]
    elif k == "section":
        for a in SEC_ATTRS:
            out[a] = _get(obj, a)
        out["sections"] = [snap(s, ids, identity, depth + 1) for s in list.__iter__(obj.sections)]
        out["properties"] = [snap(p, ids, identity, depth + 1)
                             for p in list.__iter__(obj.properties)]
    elif k == "property":
        for a in PROP_ATTRS:
            out[a] = _get(obj, a)
        try:
            out["values"] = [atom(v) for v in obj.values]
        except Exception as exc:
            out["values"] = ["<raises>", type(exc).__name__]
    return out


def canon(s):
    return json.dumps(s, sort_keys=True, ensure_ascii=True, default=repr)


def strip(s, drop=("id", "@")):
    """Project fields away, recursively."""
    if isinstance(s, dict):
        return {k: strip(v, drop) for k, v in s.items() if k not in drop}
    if isinstance(s, list):
        return [strip(x, drop) for x in s]
    return s


def diff(a, b, path=""):
    """First difference between two snapshots as (path, a, b) or None."""
    if type(a) != type(b):
        return (path, a, b)
    if isinstance(a, dict):
        for k in sorted(set(a) | set(b)):
            if k not in a or k not in b:
                return (path + "/" + k, a.get(k, "<absent>"), b.get(k, "<absent>"))
            d = diff(a[k], b[k], path + "/" + k)
            if d:
                return d
        return None
    if isinstance(a, list):
        if len(a) != len(b):
            # point at the first differing element when there is one
            for i, (x, y) in enumerate(zip(a, b)):
                d = diff(x, y, "%s[%d]" % (path, i))
                if d:
                    return d
            return (path + "/len", len(a), len(b))
        for i, (x, y) in enumerate(zip(a, b)):
            d = diff(x, y, "%s[%d]" % (path, i))
            if d:
                return d
        return None
    if a != b:
        return (path, a, b)
    return None


def short(x, n=300):
    s = x if isinstance(x, str) else canon(x)
    return s if len(s) <= n else s[:n] + "..."
