"""Three-valued reference for cardinality assignment (C09) and the violation rule.

expect(setting) -> ("must", allowed_values) | ("raise",) | ("either",)
A stored cardinality is well-formed iff it is None or a 2-tuple (a, b) of None / int >= 0 (not
bool), not both empty (None or 0), and a <= b when both are set."""


def is_int(x):
    return isinstance(x, int) and not isinstance(x, bool)


def well_formed(card):
    if card is None:
        return True
    if not isinstance(card, tuple) or len(card) != 2:
        return False
    a, b = card
    for x in (a, b):
        if x is not None and not (is_int(x) and x >= 0):
            return False
    if not a and not b:
        return False
    if a is not None and b is not None and a > b:
        return False
    return True


def same(card1, card2):
    """Equality of stored cardinalities with 0 == None for the minimum."""
    def norm(c):
        if c is None:
            return None
        return (c[0] or None, c[1])
    return norm(card1) == norm(card2)


def expect(s):
    """s is the Python object assigned."""
    if s is None:
        return ("must", [None])
    if isinstance(s, bool):
        return ("either",)
    if is_int(s):
        if s > 0:
            return ("must", [(None, s)])
        if s == 0:
            return ("either",)
        return ("raise",)
    if isinstance(s, float):
        return ("either",) if s == 0.0 else ("raise",)
    if isinstance(s, str):
        return ("either",) if s == "" else ("raise",)
    if isinstance(s, list):
        return ("either",)          # 2-lists are supported "without advertising it"
    if isinstance(s, dict):
        return ("either",) if len(s) == 0 else ("raise",)     # {} is one more falsy input (the library's tests want None)
    if isinstance(s, tuple):
        if len(s) == 0:
            return ("either",)
        if len(s) != 2:
            return ("raise",)
        a, b = s
        open_element = False
        for x in (a, b):
            if x is None:
                continue
            if isinstance(x, bool):
                open_element = True
            elif isinstance(x, float):
                if x != 0.0:
                    return ("raise",)
                open_element = True
            elif isinstance(x, (str, list, tuple, dict)) and len(x) == 0:
                open_element = True     # an empty element: the library reads every falsy input as "unset"
            elif not is_int(x) or x < 0:
                return ("raise",)
        if open_element:
            return ("either",)
        if not a and not b:
            return ("either",)      # (None,None), (0,0), (0,None), (None,0): "both empty"
        if a and not b:
            if b == 0:
                return ("either",)  # (n, 0): the library reads 0 as "unset"
            return ("must", [(a, None)])
        if b and not a:
            return ("must", [(None, b), (0, b)] if a == 0 else [(None, b)])
        if a <= b:
            return ("must", [(a, b)])
        return ("raise",)
    return ("raise",)


def violated(card, count):
    """The documented rule: a warning exactly when count lies outside [min, max]."""
    if card is None:
        return False
    a, b = card
    if a is not None and count < a:
        return True
    if b is not None and count > b:
        return True
    return False
