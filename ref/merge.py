"""Reference for Section.merge (C13), on snapshots (mc.snapshot.snap dictionaries).

classify(dest, src, strict) -> "must-raise-valueerror" | "must-raise" | "may-raise" | "must-succeed"
post(dest_before, src, dest_after, strict) -> list of (clause, detail)"""
from mc.snapshot import strip

PROP_FILL = ("unit", "uncertainty", "definition", "reference", "value_origin")
SEC_FILL = ("definition", "reference")


def _val(a):
    """atom -> python-ish comparable (type name, repr)"""
    return None if a is None else tuple(a) if isinstance(a, list) else a


def _norm_text(a):
    if a is None or a[0] != "str":
        return a
    return ("str", "".join(eval(a[1]).split()).lower())


def attr_conflict(d, s, name):
    """'none' | 'hard' | 'soft' (differs in case/whitespace only)"""
    a, b = d.get(name), s.get(name)
    if a is None or b is None or a == b:
        return "none"
    if name in ("definition", "reference", "value_origin") and _norm_text(a) == _norm_text(b):
        return "soft"
    return "hard"


def convert(atom, dtype):
    """Convert a value atom [typename, repr] to the destination dtype; returns atom or None."""
    tname, rep = atom[0], atom[1]
    if tname in ("list", "tuple"):
        # value of an n-tuple dtype (a list of n texts): fits an untyped Property and an n-tuple of that n
        return atom if dtype is None or dtype == "%d-tuple" % (len(atom) - 1) else None
    v = eval(rep) if tname in ("int", "float", "str", "bool") else None
    if v is None and tname not in ("int", "float", "str", "bool"):
        return atom if dtype is None else None
    try:
        if dtype in ("int",):
            if isinstance(v, bool):
                return None
            r = int(v) if not isinstance(v, str) else int(float(v)) if v.strip() else None
            return None if r is None else ["int", repr(r)]
        if dtype == "float":
            return ["float", repr(float(v))]
        if dtype in ("string", "text", "url", "person"):
            return ["str", repr(str(v))]
        if dtype == "boolean":
            if isinstance(v, bool):
                return atom
            return None
    except (ValueError, TypeError):
        return None
    return atom


def _dt(p):
    return eval(p["dtype"][1]) if p.get("dtype") else None


def is_tuple_pair(dp, sp):
    """One of the two Properties is of an n-tuple dtype or holds n-tuple values."""
    return any(isinstance(_dt(x), str) and _dt(x).endswith("-tuple") for x in (dp, sp)) or any(
        v[0] in ("list", "tuple") for x in (dp, sp) for v in x["values"])


def match_sec(children, c):
    same = [x for x in children if x["name"] == c["name"] and x["type"] == c["type"]]
    other = [x for x in children if x["name"] == c["name"] and x["type"] != c["type"]]
    return (same[0] if same else None), bool(other)


def classify(dest, src, strict):
    """Worst requirement over the whole pair of trees."""
    level = {"must-succeed": 0, "may-raise": 1, "must-raise-valueerror": 2, "must-raise": 3}
    out = ["must-succeed"]

    def up(x):
        out.append(x)

    def rec(d, s):
        for a in SEC_FILL:
            c = attr_conflict(d, s, a)
            if strict and c == "hard":
                up("must-raise-valueerror")
            elif strict and c == "soft":
                up("may-raise")
        for sp in s["properties"]:
            dp = [x for x in d["properties"] if x["name"] == sp["name"]]
            if not dp:
                continue
            dp = dp[0]
            ddt, sdt = _dt(dp), _dt(sp)
            if is_tuple_pair(dp, sp):
                # the statement does not say whether (and into what) n-tuple values can be merged or converted: a
                # refusal that changes nothing and a merge that fulfils the rest of the postcondition are both
                # accepted
                up("may-raise")
            elif any(convert(v, ddt) is None for v in sp["values"]) and ddt is not None:
                up("must-raise")
            if strict:
                if ddt is not None and sdt is not None and ddt != sdt:
                    up("must-raise-valueerror")
                # the library reads a string value with a line break as 'text': whether a strict merge into a
                # 'string' Property takes it is left open (it must be all or nothing either way)
                if ddt == "string" and any(v[0] == "str" and "\\n" in v[1] for v in sp["values"]):
                    up("may-raise")
                for a in PROP_FILL:
                    c = attr_conflict(dp, sp, a)
                    if c == "hard":
                        up("must-raise-valueerror")
                    elif c == "soft":
                        up("may-raise")
        for sc in s["sections"]:
            dc, other = match_sec(d["sections"], sc)
            if dc is not None:
                rec(dc, sc)
            elif other:
                up("must-raise")
    rec(dest, src)
    return max(out, key=lambda x: level[x])


def post(before, src, after, strict):
    """Postconditions of a successful merge. Returns list of (clause, detail)."""
    out = []

    def sec(b, s, a, path):
        # attributes of the destination section
        for k in ("name", "type", "repository", "link", "include", "sec_cardinality", "prop_cardinality", "id"):
            if b.get(k) != a.get(k):
                out.append(("dest-attribute-changed", "%s.%s: %r -> %r" % (path, k, b.get(k), a.get(k))))
        for k in SEC_FILL:
            want = b.get(k) if b.get(k) is not None else s.get(k)
            if a.get(k) != want:
                out.append(("section-%s-not-%s" % (k, "kept" if b.get(k) is not None else "filled"),
                            "%s.%s is %r, expected %r" % (path, k, a.get(k), want)))
        # properties
        for sp in s["properties"]:
            ap = [x for x in a["properties"] if x["name"] == sp["name"]]
            bp = [x for x in b["properties"] if x["name"] == sp["name"]]
            if not ap:
                out.append(("source-property-missing-in-dest", "%s:%s" % (path, sp["name"])))
                continue
            ap = ap[0]
            if not bp:
                if strip(ap) != strip(sp):
                    out.append(("copied-property-differs-from-source", "%s:%s" % (path, sp["name"])))
                if ap.get("id") == sp.get("id"):
                    out.append(("copied-property-shares-id-with-source", "%s:%s" % (path, sp["name"])))
                continue
            prop(bp[0], sp, ap, "%s:%s" % (path, sp["name"]))
        for bp in b["properties"]:
            if not any(x["name"] == bp["name"] for x in s["properties"]):
                ap = [x for x in a["properties"] if x["name"] == bp["name"]]
                if not ap or ap[0] != bp:
                    out.append(("dest-only-property-changed", "%s:%s" % (path, bp["name"])))
        extra = [x["name"] for x in a["properties"]
                 if not any(y["name"] == x["name"] for y in b["properties"] + s["properties"])]
        if extra or len(a["properties"]) != len(set(tuple(x["name"]) for x in b["properties"] + s["properties"])):
            out.append(("unexpected-properties-in-dest", "%s: %r" % (path, [x["name"] for x in a["properties"]])))
        # sections
        for sc in s["sections"]:
            ac, _ = match_sec(a["sections"], sc)
            bc, _ = match_sec(b["sections"], sc)
            if ac is None:
                out.append(("source-section-missing-in-dest", "%s/%s" % (path, sc["name"])))
                continue
            if bc is None:
                if strip(ac) != strip(sc):
                    out.append(("copied-section-differs-from-source", "%s/%s" % (path, sc["name"])))
                if ac.get("id") == sc.get("id"):
                    out.append(("copied-section-shares-id-with-source", "%s/%s" % (path, sc["name"])))
                continue
            sec(bc, sc, ac, "%s/%s" % (path, sc["name"]))
        for bc in b["sections"]:
            sc, _ = match_sec(s["sections"], bc)
            if sc is None:
                ac = [x for x in a["sections"] if x.get("id") == bc.get("id")]
                if not ac or ac[0] != bc:
                    out.append(("dest-only-section-changed", "%s/%s" % (path, bc["name"])))
        if len(a["sections"]) != len(b["sections"]) + sum(
                1 for sc in s["sections"] if match_sec(b["sections"], sc)[0] is None):
            out.append(("unexpected-sections-in-dest", "%s: %r" % (path, [x["name"] for x in a["sections"]])))

    def prop(b, s, a, path):
        for k in ("name", "dtype", "id", "dependency", "dependency_value", "val_cardinality"):
            if b.get(k) != a.get(k):
                out.append(("dest-attribute-changed", "%s.%s: %r -> %r" % (path, k, b.get(k), a.get(k))))
        for k in PROP_FILL:
            want = b.get(k) if b.get(k) is not None else s.get(k)
            if a.get(k) != want:
                out.append(("property-%s-not-%s" % (k, "kept" if b.get(k) is not None else "filled"),
                            "%s.%s is %r, expected %r" % (path, k, a.get(k), want)))
        bv, av = b["values"], a["values"]
        if av[:len(bv)] != bv:
            out.append(("dest-values-not-kept-in-order", "%s: %r -> %r" % (path, bv, av)))
            return
        if is_tuple_pair(b, s) and _dt(b) != _dt(s):
            return      # what an n-tuple value becomes in a Property of another dtype (and vice versa) is left open
        ddt = _dt(b) if _dt(b) is not None else _dt(s)
        conv = [convert(v, ddt) for v in s["values"]]
        added = av[len(bv):]
        for v, c in zip(s["values"], conv):
            if c is None:
                continue
            if c not in av:
                out.append(("source-value-missing-in-dest", "%s: %r (as %r) not in %r" % (path, v, c, av)))
        for x in added:
            if x not in conv:
                out.append(("value-added-that-source-does-not-have", "%s: %r" % (path, x)))
        lacked = [c for c in conv if c is not None and c not in bv]
        seq = [x for x in added if x in lacked]
        dedup = []
        for x in seq:
            if x not in dedup:
                dedup.append(x)
        want = []
        for x in lacked:
            if x not in want:
                want.append(x)
        if dedup != want:
            out.append(("added-values-not-in-source-order", "%s: %r vs %r" % (path, dedup, want)))
    sec(before, src, after, "")
    return out
