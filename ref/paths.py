"""Independent path resolution and traversal over the object graph (C12, C14, C06 filters).

Uses only `.parent`, `.name` and the child lists by identity (ref.tree.children)."""
from ref import tree


def root_of(obj):
    node, n = obj, 0
    while node.parent is not None and n < 1000:
        node = node.parent
        n += 1
    return node


def child_named(node, name):
    secs, _ = tree.children(node)
    hits = [s for s in secs if s.name == name]
    return hits[0] if len(hits) == 1 else None


def resolve(start, path, virtual_parent=None):
    """Section addressed by `path` from Section/Document `start`, or None.
    virtual_parent: resolve as if `start` were a (not yet attached) child of it."""
    D, S, P = tree._kinds()
    if not isinstance(path, str) or path == "":
        return None

    def parent_of(n):
        if n is start and virtual_parent is not None:
            return virtual_parent
        return n.parent
    if path.startswith("/"):
        node = start
        while parent_of(node) is not None:
            node = parent_of(node)
        if not isinstance(node, D):
            return None
        parts = path[1:].split("/")
    else:
        node = start
        parts = path.split("/")
    for part in parts:
        if part == "..":
            node = parent_of(node)
        elif part == ".":
            pass
        elif part == "":
            return None
        else:
            node = child_named(node, part)
        if node is None:
            return None
    return node if isinstance(node, S) else None


def ancestors(obj, virtual_parent=None):
    out = []
    node = virtual_parent if virtual_parent is not None else obj.parent
    n = 0
    while node is not None and n < 1000:
        out.append(node)
        node = node.parent
        n += 1
    return out


def related(a, b, virtual_parent=None):
    """True if b is a, an ancestor of a, or a descendant of a."""
    if a is b:
        return True
    if any(x is b for x in ancestors(a, virtual_parent)):
        return True
    if any(x is a for x in ancestors(b)):
        return True
    return False


def abs_path(sec):
    """Absolute path of a Section built by the reference (names joined by '/')."""
    parts = []
    node, n = sec, 0
    while node.parent is not None and n < 1000:
        parts.insert(0, node.name)
        node = node.parent
        n += 1
    return "/" + "/".join(parts)


def rel_path(a, b):
    """A relative path from Section a to Section b (both in one tree): '../'*k + names."""
    chain_a = [a] + ancestors(a)
    chain_b = [b] + ancestors(b)
    common = None
    for x in chain_a:
        if any(x is y for y in chain_b):
            common = x
            break
    if common is None:
        return None
    ups = 0
    for x in chain_a:
        if x is common:
            break
        ups += 1
    down = []
    for y in chain_b:
        if y is common:
            break
        down.insert(0, y.name)
    parts = [".."] * ups + down
    return "/".join(parts) if parts else "."


def bfs_sections(start, max_depth=None, include_start=False):
    """Breadth-first list of Sections below start (level of children = 1)."""
    D, S, P = tree._kinds()
    out = []
    queue = []
    if isinstance(start, D):
        if max_depth is None or max_depth > 0:
            queue = [(s, 1) for s in tree.children(start)[0]]
    else:
        queue = [(start, 0)]
    while queue:
        sec, lvl = queue.pop(0)
        if lvl > 0 or include_start:
            out.append(sec)
        if max_depth is None or lvl < max_depth:
            queue.extend((s, lvl + 1) for s in tree.children(sec)[0])
    return out
