"""Reference for the shape of an exported RDF graph (C10).  Uses rdflib's triple API only; the
namespace and predicate names are hard-coded copies, not imports from odml.format."""
import datetime as dt
import enum

NS = "https://g-node.org/odml-rdf#"
RDF = "http://www.w3.org/1999/02/22-rdf-syntax-ns#"
RDFS = "http://www.w3.org/2000/01/rdf-schema#"
XSD = "http://www.w3.org/2001/XMLSchema#"

DOC_PRED = {"author": "hasAuthor", "date": "hasDate", "version": "hasDocVersion"}
SEC_PRED = {"name": "hasName", "type": "hasType", "definition": "hasDefinition", "reference": "hasReference"}
PROP_PRED = {"name": "hasName", "definition": "hasDefinition", "dtype": "hasDtype", "unit": "hasUnit",
             "uncertainty": "hasUncertainty", "reference": "hasReference", "value_origin": "hasValueOrigin"}
STRUCT = {"hasSection", "hasProperty", "hasValue", "hasTerminology", "hasDocument", "hasFileName", "hasId"}


def _u(x):
    from rdflib import URIRef
    return URIRef(x)


def _same(lit, value):
    """A literal carries `value`: equal python value of the same type (dates by their ISO text)."""
    try:
        py = lit.toPython()
    except Exception:
        return False
    if isinstance(value, enum.Enum) and isinstance(value, str):
        value = value.value         # a dtype given as DType member stands for its type name
    if isinstance(value, (list, tuple)):
        # an odML n-tuple has no RDF counterpart: its text form "(a;b)" is the faithful literal
        return isinstance(py, str) and py == "(" + ";".join(value) + ")"
    if isinstance(value, bool) or isinstance(py, bool):
        return type(py) is type(value) and py == value
    if isinstance(value, (dt.date, dt.time, dt.datetime)):
        return py == value or str(py) == str(value) or str(lit) == value.isoformat()
    if isinstance(value, float):
        return isinstance(py, float) and (py == value or repr(py) == repr(value))
    if isinstance(value, int):
        return isinstance(py, int) and not isinstance(py, bool) and py == value
    return type(py) is type(value) and py == value


def violations(graph, documents, subclass_of=None):
    """documents: live odml Documents that were exported.  subclass_of(section) -> expected class local
    name or None.  Returns a list of (clause, detail)."""
    from rdflib import Literal, URIRef
    from ref import tree
    out = []
    hub = _u(NS + "Hub")
    has_doc = _u(NS + "hasDocument")
    rdf_type = _u(RDF + "type")
    subjects_with_docs = set(s for s, _, _ in graph.triples((None, has_doc, None)))
    if documents and subjects_with_docs != {hub}:
        out.append(("not-exactly-one-hub", sorted(map(str, subjects_with_docs))))
    doc_nodes = set(graph.objects(hub, has_doc))
    want_docs = set(_u(NS + d.id) for d in documents)
    if doc_nodes != want_docs:
        out.append(("hub-does-not-link-exactly-the-documents",
                    {"missing": sorted(map(str, want_docs - doc_nodes)), "extra": sorted(map(str, doc_nodes - want_docs))}))
    typed_doc = set(graph.subjects(rdf_type, _u(NS + "Document")))
    if typed_doc != want_docs:
        out.append(("nodes-typed-Document-are-not-exactly-the-documents", sorted(map(str, typed_doc ^ want_docs))))

    def check_node(obj, kind, preds, cls):
        node = _u(NS + obj.id)
        types = list(graph.objects(node, rdf_type))
        if len(types) != 1:
            out.append(("object-does-not-have-exactly-one-rdf-type", (kind, [str(t) for t in types])))
        elif types[0] != _u(NS + cls):
            out.append(("object-has-the-wrong-rdf-type", (kind, str(types[0]), cls)))
        if cls not in ("Document", "Section", "Property"):
            if (_u(NS + cls), _u(RDFS + "subClassOf"), _u(NS + "Section")) not in graph:
                out.append(("sub-class-not-declared", cls))
        # literal valued predicates = exactly the set attributes
        have = {}
        for p, o in graph.predicate_objects(node):
            if isinstance(o, Literal):
                have.setdefault(str(p), []).append(o)
        for attr, pname in preds.items():
            v = getattr(obj, attr)
            lits = have.pop(NS + pname, [])
            if v is None or v == "":
                if lits:
                    out.append(("attribute-exported-although-unset", (kind, attr)))
                continue
            if len(lits) != 1:
                out.append(("set-attribute-not-exported-exactly-once", (kind, attr, repr(v), len(lits))))
            elif not _same(lits[0], v):
                out.append(("exported-attribute-has-another-value", (kind, attr, repr(v), repr(lits[0].toPython()))))
        have.pop(NS + "hasFileName", None)
        # a repository is exported as a link to a terminology node typed by the URL
        repo = getattr(obj, "repository", None) if kind != "property" else None
        terms = list(graph.objects(node, _u(NS + "hasTerminology")))
        if repo:
            if len(terms) != 1:
                out.append(("set-attribute-not-exported-exactly-once", (kind, "repository", repr(repo), len(terms))))
            elif (terms[0], rdf_type, _u(repo)) not in graph:
                out.append(("exported-attribute-has-another-value", (kind, "repository", repr(repo), str(terms[0]))))
        elif terms:
            out.append(("attribute-exported-although-unset", (kind, "repository")))
        if have:
            out.append(("unexpected-literal-predicates", (kind, sorted(have))))
        return node

    def check_children(node, pred, children, kind):
        got = set(graph.objects(node, _u(NS + pred)))
        want = set(_u(NS + c.id) for c in children)
        if got != want:
            out.append(("child-edges-are-not-exactly-the-children", (kind, pred, len(got), len(want))))

    def rec_section(sec):
        cls = (subclass_of(sec) if subclass_of else None) or "Section"
        node = check_node(sec, "section", SEC_PRED, cls)
        secs, props = tree.children(sec)
        check_children(node, "hasSection", secs, "section")
        check_children(node, "hasProperty", props, "section")
        for p in props:
            pn = check_node(p, "property", PROP_PRED, "Property")
            seqs = list(graph.objects(pn, _u(NS + "hasValue")))
            vals = p.values
            if not vals:
                if seqs:
                    out.append(("values-exported-for-an-empty-property", len(seqs)))
                continue
            if len(seqs) != 1:
                out.append(("values-do-not-form-one-sequence", len(seqs)))
                continue
            seq = seqs[0]
            if (seq, rdf_type, _u(RDF + "Seq")) not in graph:
                out.append(("value-node-is-not-an-rdf-Seq", str(seq)))
            members = {}
            for pr, o in graph.predicate_objects(seq):
                s = str(pr)
                if s.startswith(RDF + "_"):
                    members[int(s[len(RDF) + 1:])] = o
                elif s == RDF + "li":
                    out.append(("values-exported-as-unordered-rdf-li", None))
            if sorted(members) != list(range(1, len(vals) + 1)):
                out.append(("sequence-members-are-not-numbered-1-to-n", (sorted(members), len(vals))))
                continue
            for i, v in enumerate(vals, 1):
                if not _same(members[i], v):
                    out.append(("sequence-member-differs-from-the-value", (i, repr(v), repr(members[i].toPython()))))
                    break
        for c in secs:
            rec_section(c)

    for d in documents:
        node = check_node(d, "document", DOC_PRED, "Document")
        secs, _ = tree.children(d)
        check_children(node, "hasSection", secs, "document")
        for s in secs:
            rec_section(s)
    return out
