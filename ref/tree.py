"""Independent walker for the well-formed-tree invariant (C03) and the naming invariant (C04).

Uses only `.parent`, the contents of the child lists *by identity* (plain list iteration, never
SmartList's name-based lookups) and isinstance.
"""
import uuid

from mc import env


def _kinds():
    from odml.doc import BaseDocument
    from odml.section import BaseSection
    from odml.property import BaseProperty
    return BaseDocument, BaseSection, BaseProperty


def children(obj):
    """(sections, properties) as plain lists, by identity."""
    D, S, P = _kinds()
    secs, props = [], []
    if isinstance(obj, (D, S)):
        secs = list(list.__iter__(obj.sections))
    if isinstance(obj, S):
        props = list(list.__iter__(obj.properties))
    return secs, props


def closure(roots):
    """All objects reachable from roots through child lists and parent pointers, in discovery
    order (roots first)."""
    D, S, P = _kinds()
    seen, order = set(), []
    todo = list(roots)
    while todo:
        o = todo.pop(0)
        if id(o) in seen or not isinstance(o, (D, S, P)):
            continue
        seen.add(id(o))
        order.append(o)
        secs, props = children(o)
        todo.extend(secs)
        todo.extend(props)
        par = getattr(o, "parent", None)
        if par is not None:
            todo.append(par)
        merged = getattr(o, "_merged", None)
        if merged is not None:
            todo.append(merged)
    return order


def tree_violations(objs, check_queries=True):
    """Clauses of C03 violated in the object set `objs` (which must be closed under children
    and parents).  Returns a list of (clause, detail)."""
    D, S, P = _kinds()
    out = []
    containers = [o for o in objs if isinstance(o, (D, S))]
    where = {}   # id(child) -> list of (container, listname)
    for c in containers:
        secs, props = children(c)
        for lname, lst, want in (("sections", secs, S), ("properties", props, P)):
            for ch in lst:
                if not isinstance(ch, want):
                    out.append(("wrong-kind-child", "%s in %s of %s" % (
                        type(ch).__name__, lname, _nm(c))))
                    continue
                where.setdefault(id(ch), []).append((c, lname))
                if ch.parent is not c:
                    out.append(("listed-child-reports-other-parent",
                                "%s listed in %s but parent is %s" % (_nm(ch), _nm(c), _nm(ch.parent))))
    for o in objs:
        if isinstance(o, D):
            continue
        par = o.parent
        occ = where.get(id(o), [])
        if par is not None:
            n_here = sum(1 for c, _ in occ if c is par)
            if n_here == 0:
                out.append(("parent-does-not-list-child",
                            "%s reports parent %s which does not list it" % (_nm(o), _nm(par))))
            elif n_here > 1:
                out.append(("child-listed-twice", "%s occurs %d times in %s" % (
                    _nm(o), n_here, _nm(par))))
        foreign = [c for c, _ in occ if c is not par]
        if foreign:
            out.append(("listed-in-foreign-list", "%s also listed in %s" % (
                _nm(o), ",".join(_nm(c) for c in foreign))))
    cyclic = set()
    for o in objs:
        if isinstance(o, D):
            continue
        seen, cur, n = set(), o, 0
        while cur is not None and n < 1000:
            if id(cur) in seen:
                cyclic.add(id(o))
                out.append(("cycle", "%s is its own ancestor (or hangs below a cycle)" % _nm(o)))
                break
            seen.add(id(cur))
            cur = cur.parent
            n += 1
    if cyclic or not check_queries:
        return out
    # document / path / traversal queries (they terminate when there is no cycle; the
    # watchdog of the caller bounds them anyway)
    for o in objs:
        root = o
        while root.parent is not None:
            root = root.parent
        want = root if isinstance(root, D) else None
        try:
            got = o.document
        except Exception as exc:
            out.append(("document-query-raises", "%s.document raised %s" % (_nm(o), type(exc).__name__)))
            continue
        if got is not want:
            out.append(("document-is-not-root-of-parent-chain", "%s.document is %s, root is %s" % (
                _nm(o), _nm(got), _nm(want))))
    return out


def _nm(o):
    if o is None:
        return "None"
    D, S, P = _kinds()
    if isinstance(o, D):
        return "Document"
    try:
        return "%s(%s)" % ("Section" if isinstance(o, S) else "Property", o.name)
    except Exception:
        return type(o).__name__


def naming_violations(objs):
    """Clauses of C04 violated in `objs`."""
    D, S, P = _kinds()
    out = []
    for c in objs:
        if not isinstance(c, (D, S)):
            continue
        secs, props = children(c)
        for lname, lst in (("sections", secs), ("properties", props)):
            names = {}
            for ch in lst:
                try:
                    nm = ch.name
                except Exception:
                    continue
                try:
                    names[nm] = names.get(nm, 0) + 1
                except TypeError:
                    pass
            dups = sorted(str(n) for n, k in names.items() if k > 1)
            if dups:
                out.append(("duplicate-sibling-%s-name" % ("section" if lname == "sections" else "property"),
                            "%s has several %s named %s" % (_nm(c), lname, ",".join(dups))))
    for o in objs:
        if not isinstance(o, D):
            nm = o.name
            if not isinstance(nm, str) or nm == "":
                out.append(("empty-or-non-string-name", "%s has name %r" % (type(o).__name__, nm)))
        oid = o.id
        ok = isinstance(oid, str)
        if ok:
            try:
                ok = str(uuid.UUID(oid)) == oid
            except (ValueError, AttributeError, TypeError):
                ok = False
        if not ok:
            out.append(("id-not-canonical-uuid", "%s has id %r" % (type(o).__name__, oid)))
    return out
