"""Reference mapping of an abstract odML 1.0 document (gen/v10.py) to what its 1.1 conversion has to
contain, and the comparison with a loaded 1.1 document.  Written from the statement of C15."""
import re
import uuid

LIFTED = {"unit": "unit", "uncertainty": "uncertainty", "type": "dtype", "dtype": "dtype", "filename": "value_origin",
          "definition": "definition", "reference": "reference"}
SEC_KEEP = ("definition", "reference")
PROP_KEEP = {"definition": "definition", "dependency": "dependency", "dependency_value": "dependency_value",
             "dependencyvalue": "dependency_value"}
DOC_KEEP = ("author", "version", "date")


def valid_id(text):
    try:
        return str(uuid.UUID(text)) if text else None
    except (ValueError, AttributeError, TypeError):
        return None


def typed(text, dtype):
    if dtype == "int":
        return int(text)
    if dtype == "float":
        return float(text)
    return text


def expect_property(p):
    """-> (expected dict, log tokens) or (None, tokens) for an unnamed Property"""
    tokens = []
    if p["name"] is None:
        return None, [("unnamed-property", [v["text"] for v in p["values"] if v["text"]] + ["without name", "unnamed", "no name"])]
    lifted = {}
    for v in p["values"]:
        for tag, text in v["attrs"]:
            if tag == "#comment" or text is None:
                continue
            if tag not in LIFTED:
                tokens.append(("unsupported-value-element", [tag]))
                continue
            target = LIFTED[tag]
            if tag in ("type", "dtype") and text == "binary":
                text = "text"
                tokens.append(("binary-replaced", ["binary"]))
            if target in lifted:
                if lifted[target] != text:
                    tokens.append(("conflicting-%s" % target, [text]))
                continue
            lifted[target] = text
    attrs = {}
    for k, v in p["attrs"].items():
        if k in PROP_KEEP and v is not None:
            attrs[PROP_KEEP[k]] = v
    for k in ("definition", "reference"):
        # an attribute the Property itself carries wins over one lifted from a value
        if k in attrs and k in lifted:
            if lifted[k] != attrs[k]:
                tokens.append(("conflicting-%s" % k, [lifted[k]]))
            del lifted[k]
    for tag, text in p.get("extra", []):
        if tag == "#comment":
            continue
        tokens.append(("unsupported-property-element", [tag]))
    texts = [v["text"].strip() for v in p["values"] if v["text"] and v["text"].strip()]
    dtype = lifted.get("dtype")
    exp = {"name": p["name"], "id": valid_id(p.get("id")), "texts": texts, "dtype": dtype,
           "values": [typed(t, dtype) for t in texts], "attrs": attrs, "lifted": {k: v for k, v in lifted.items() if k != "dtype"}}
    return exp, tokens


def expect_section(s):
    tokens = []
    props = []
    for p in s["properties"]:
        e, t = expect_property(p)
        tokens += t
        if e is not None:
            props.append(e)
    for tag, text in s.get("extra", []):
        if tag == "#comment":
            continue
        tokens.append(("unsupported-section-element", [tag]))
    secs = []
    for c in s["sections"]:
        e, t = expect_section(c)
        secs.append(e)
        tokens += t
    exp = {"name": s["name"], "type": s["type"], "id": valid_id(s.get("id")),
           "attrs": {k: v for k, v in s["attrs"].items() if k in SEC_KEEP and v is not None}, "properties": props,
           "sections": secs}
    return exp, tokens


def expect_document(d):
    tokens = []
    secs = []
    for s in d["sections"]:
        e, t = expect_section(s)
        secs.append(e)
        tokens += t
    for tag, text in d.get("extra", []):
        if tag == "#comment":
            continue
        tokens.append(("unsupported-document-element", [tag]))
    return {"attrs": {k: v for k, v in d["attrs"].items() if k in DOC_KEEP and v is not None}, "id": valid_id(d.get("id")),
            "sections": secs}, tokens


SUFFIX = re.compile(r"^(.*)-(\d+)$")


def names_ok(expected_names, got_names):
    """Clashing sibling names are made unique by a numeric suffix; non-clashing names stay."""
    if len(expected_names) != len(got_names):
        return "number of siblings differs: %r vs %r" % (expected_names, got_names)
    if len(set(got_names)) != len(got_names):
        return "sibling names are not unique: %r" % (got_names,)
    counts = {}
    for n in expected_names:
        counts[n] = counts.get(n, 0) + 1
    for want, got in zip(expected_names, got_names):
        if got == want:
            continue
        m = SUFFIX.match(got)
        if counts[want] > 1 and m and m.group(1).startswith(want):
            continue            # a suffixed form of a clashing name (possibly suffixed twice to stay unique)
        return "name %r became %r" % (want, got)
    return None


def compare(exp, doc):
    """exp from expect_document, doc a loaded odml Document.  Returns list of (clause, detail)."""
    from ref import tree
    out = []
    ids = []

    def num(x):
        try:
            return float(x)
        except (TypeError, ValueError):
            return x

    def check_id(e, o, what):
        ids.append(o.id)
        if valid_id(o.id) != o.id:
            out.append(("id-not-valid", (what, o.id)))
        if e["id"] is not None and o.id != e["id"]:
            out.append(("valid-id-not-kept", (what, e["id"], o.id)))

    def rec_props(eprops, props, where):
        err = names_ok([e["name"] for e in eprops], [p.name for p in props])
        if err:
            out.append(("property-names", (where, err)))
            return
        for e, p in zip(eprops, props):
            check_id(e, p, "property")
            vals = p.values
            if vals != e["values"] or [type(v) for v in vals] != [type(v) for v in e["values"]]:
                out.append(("values-differ", (e["name"], e["values"], vals)))
            want_dtype = e["dtype"] or ("string" if e["values"] else None)
            if p.dtype != want_dtype:
                out.append(("dtype-differs", (e["name"], want_dtype, p.dtype)))
            for k in ("unit", "value_origin", "definition", "reference"):
                want = e["lifted"].get(k, e["attrs"].get(k))
                if getattr(p, k) != want:
                    out.append(("%s-differs" % k, (e["name"], want, getattr(p, k))))
            if num(p.uncertainty) != num(e["lifted"].get("uncertainty")):
                out.append(("uncertainty-differs", (e["name"], e["lifted"].get("uncertainty"), p.uncertainty)))
            for k in ("dependency", "dependency_value"):
                if getattr(p, k) != e["attrs"].get(k):
                    out.append(("%s-differs" % k, (e["name"], e["attrs"].get(k), getattr(p, k))))

    def rec_secs(esecs, secs, where):
        err = names_ok([e["name"] for e in esecs], [s.name for s in secs])
        if err:
            out.append(("section-names", (where, err)))
            return
        for e, s in zip(esecs, secs):
            check_id(e, s, "section")
            if s.type != e["type"]:
                out.append(("section-type-differs", (e["name"], e["type"], s.type)))
            for k in SEC_KEEP:
                if getattr(s, k) != e["attrs"].get(k):
                    out.append(("section-%s-differs" % k, (e["name"], e["attrs"].get(k), getattr(s, k))))
            csecs, cprops = tree.children(s)
            rec_props(e["properties"], cprops, e["name"])
            rec_secs(e["sections"], csecs, e["name"])

    check_id(exp, doc, "document")
    for k in DOC_KEEP:
        got = getattr(doc, k)
        if str(got) != exp["attrs"].get(k) and not (got is None and k not in exp["attrs"]):
            out.append(("document-%s-differs" % k, (exp["attrs"].get(k), str(got))))
    rec_secs(exp["sections"], tree.children(doc)[0], "document")
    if len(set(ids)) != len(ids):
        out.append(("ids-not-unique", None))
    return out
