"""Reference implementation of the documented validation rules (doc/advanced_features.rst) - C08.

expected(root) -> (must, may, groups)
  must   : set of (id(obj), issue_id, rank) that have to be reported
  may    : set of (id(obj), issue_id, rank) that may be reported (statement silent)
  groups : list of (issue_ids, [objs]) clash groups: between n-1 and n members have to be flagged
Only the kinds the property lists are produced; everything else is ignored by the comparison."""
import datetime as dt

from ref import tree
from ref import cardinality as refcard

ERR, WARN = "error", "warning"
REQUIRED, TYPE_NS = 101, 102
SEC_IDS, PROP_IDS, SEC_NAME_TYPE, PROP_NAME = 200, 201, 202, 203
NAME_READABLE, DEPENDENCY, VALUES = 300, 401, 402
CARD_PROPS, CARD_SECS, CARD_VALS = 500, 501, 502
JUDGED = {REQUIRED, TYPE_NS, SEC_IDS, PROP_IDS, SEC_NAME_TYPE, PROP_NAME, NAME_READABLE, DEPENDENCY,
          VALUES, CARD_PROPS, CARD_SECS, CARD_VALS}


def scope(root):
    """Objects a validation of `root` has to look at: root, every Section below it and every
    Property of those Sections (including root's own Properties)."""
    D, S, P = tree._kinds()
    if isinstance(root, P):
        return [root]
    out = [root]
    todo = [root]
    while todo:
        c = todo.pop(0)
        secs, props = tree.children(c)
        out.extend(props)
        for s in secs:
            out.append(s)
            todo.append(s)
    return out


def _type_ok(v, dtype):
    d = (dtype or "").lower()
    d = {"str": "string", "bool": "boolean"}.get(d, d)
    if d in ("string", "text", "url", "person"):
        return isinstance(v, str)
    if d == "int":
        return isinstance(v, int) and not isinstance(v, bool)
    if d == "float":
        return isinstance(v, float)
    if d == "boolean":
        return isinstance(v, bool)
    if d == "date":
        return isinstance(v, dt.date) and not isinstance(v, dt.datetime)
    if d == "time":
        return isinstance(v, dt.time)
    if d == "datetime":
        return isinstance(v, dt.datetime)
    if d.endswith("-tuple"):
        return isinstance(v, list) and len(v) == int(d[:-6])
    return True


def _convertible(v, dtype):
    """Could text conversion turn v into the dtype?  (independent of odml.dtypes)"""
    d = (dtype or "").lower()
    try:
        if d == "int":
            int(float(v))
            return True
        if d == "float":
            float(v)
            return True
        if d == "boolean":
            return str(v).lower() in ("true", "false", "1", "0", "t", "f")
        if d.endswith("-tuple"):
            return False
        if d in ("date", "time", "datetime"):
            fmt = {"date": "%Y-%m-%d", "time": "%H:%M:%S", "datetime": "%Y-%m-%d %H:%M:%S"}[d]
            dt.datetime.strptime(str(v), fmt)
            return True
    except (ValueError, TypeError, OverflowError):
        return False
    return True


def _loosely_equal(a, b):
    try:
        return bool(a == b)
    except Exception:
        return False


def expected(root):
    D, S, P = tree._kinds()
    must, may, groups = set(), set(), []
    objs = scope(root)
    root_is_doc = isinstance(root, D)
    # --- per object rules
    for o in objs:
        if isinstance(o, S):
            if not o.name:
                must.add((id(o), REQUIRED, ERR))
            if not o.type:
                must.add((id(o), REQUIRED, ERR))
            if o.type == "n.s.":
                must.add((id(o), TYPE_NS, WARN))
            if o.name == o.id:
                must.add((id(o), NAME_READABLE, WARN))
            secs, props = tree.children(o)
            if refcard.violated(o.prop_cardinality, len(props)):
                must.add((id(o), CARD_PROPS, WARN))
            if refcard.violated(o.sec_cardinality, len(secs)):
                must.add((id(o), CARD_SECS, WARN))
        elif isinstance(o, P):
            if not o.name:
                must.add((id(o), REQUIRED, ERR))
            if o.name == o.id:
                must.add((id(o), NAME_READABLE, WARN))
            vals = o.values
            if refcard.violated(o.val_cardinality, len(vals)):
                must.add((id(o), CARD_VALS, WARN))
            bad = [v for v in vals if v is not None and not _type_ok(v, o.dtype)] if o.dtype else []
            if bad:
                if any(v is None for v in vals) or all(_convertible(v, o.dtype) for v in bad):
                    may.add((id(o), VALUES, WARN))
                else:
                    must.add((id(o), VALUES, WARN))
            # dependency
            dep = o.dependency
            par = o.parent
            if dep is not None and par is not None:
                _, sibs = tree.children(par)
                targets = [p for p in sibs if p.name == dep]
                if not targets:
                    must.add((id(o), DEPENDENCY, WARN))
                else:
                    tvals = targets[0].values
                    dv = o.dependency_value
                    if dv is None or not tvals:
                        may.add((id(o), DEPENDENCY, WARN))
                    elif type(tvals[0]) is type(dv) and tvals[0] == dv:
                        pass                                    # MUST NOT warn
                    elif any(type(v) is type(dv) and v == dv for v in tvals[1:]):
                        may.add((id(o), DEPENDENCY, WARN))
                    elif any(str(v) == str(dv) for v in tvals):
                        may.add((id(o), DEPENDENCY, WARN))      # equal only after text conversion
                    elif any(_loosely_equal(v, dv) for v in tvals):
                        may.add((id(o), DEPENDENCY, WARN))      # equal as numbers, of different type (5.0 and 5)
                    else:
                        must.add((id(o), DEPENDENCY, WARN))
    # --- sibling clashes
    for c in objs:
        if isinstance(c, P):
            continue
        secs, props = tree.children(c)
        by = {}
        for s in secs:
            by.setdefault((s.name, s.type), []).append(s)
        for g in by.values():
            if len(g) > 1:
                groups.append(({SEC_NAME_TYPE}, g, ERR))
        # EITHER: equally named siblings whose types are both missing but spelled differently (None next to '') -
        # "the same type" can be read either way for two absent types; every other pair of different (name, type)
        # pairs - case, blanks, None next to the text 'None', a separator moved between name and type - is different
        loose = {}
        for s in secs:
            if not s.type:
                loose.setdefault(s.name, []).append(s)
        for g in loose.values():
            if len(set((s.name, s.type) for s in g)) > 1:
                for s in g:
                    may.add((id(s), SEC_NAME_TYPE, ERR))
        if isinstance(c, S):
            by = {}
            for p in props:
                by.setdefault(p.name, []).append(p)
            for g in by.values():
                if len(g) > 1:
                    groups.append(({PROP_NAME}, g, ERR))
    # --- duplicate ids (required for Document validation; EITHER for stand-alone Sections)
    by = {}
    for o in objs:
        by.setdefault(o.id, []).append(o)
    for g in by.values():
        if len(g) > 1:
            if root_is_doc:
                groups.append(({SEC_IDS, PROP_IDS}, g, ERR))
            else:
                for o in g:
                    may.add((id(o), SEC_IDS if isinstance(o, S) else PROP_IDS, ERR))
    # EITHER: ids that differ as text but are the same UUID (RFC 4122 reads the hex digits case-insensitively); the
    # public API only ever stores the canonical lower-case form, the statement does not say which comparison is meant
    loose = {}
    for o in objs:
        if isinstance(o.id, str):
            loose.setdefault(o.id.lower(), []).append(o)
    for g in loose.values():
        if len(set(o.id for o in g)) > 1:
            for o in g:
                if not isinstance(o, D):
                    may.add((id(o), SEC_IDS if isinstance(o, S) else PROP_IDS, ERR))
    return must, may, groups


def compare(root, got):
    """got: list of (obj, issue_id_value, rank).  Returns list of (clause, obj, issue_id, detail)."""
    D, S, P = tree._kinds()
    must, may, groups = expected(root)
    out = []
    got_set = set()
    for obj, iid, rank in got:
        if iid not in JUDGED:
            continue
        got_set.add((id(obj), iid, rank))
    objs = {id(o): o for o in scope(root)}
    group_members = {}
    for iids, g, rank in groups:
        for o in g:
            for iid in iids:
                group_members[(id(o), iid)] = rank
    for key in must:
        if key not in got_set:
            wrong_rank = [k for k in got_set if k[0] == key[0] and k[1] == key[1]]
            out.append(("issue-reported-with-wrong-rank" if wrong_rank else "issue-missing",
                        objs.get(key[0]), key[1], "expected %s" % key[2]))
    for key in got_set:
        if key in must or key in may:
            continue
        if (key[0], key[1]) in group_members:
            if group_members[(key[0], key[1])] != key[2]:
                out.append(("issue-reported-with-wrong-rank", objs.get(key[0]), key[1], key[2]))
            continue
        if any(k[0] == key[0] and k[1] == key[1] for k in must):
            continue   # already reported as wrong rank
        out.append(("issue-without-violated-rule" if key[0] in objs else "issue-for-object-outside-scope",
                    objs.get(key[0]), key[1], key[2]))
    for iids, g, rank in groups:
        flagged = [o for o in g if any((id(o), iid, rank) in got_set or (id(o), iid, WARN) in got_set
                                       for iid in iids)]
        if len(flagged) < len(g) - 1:
            out.append(("clash-group-under-reported", g[-1], sorted(iids)[0],
                        "%d of %d members flagged" % (len(flagged), len(g))))
    return out
