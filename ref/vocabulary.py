"""Hard-coded copy of the odML 1.1 vocabulary (deliberately NOT imported from odml.format, so that a
change to the library's tables cannot move oracle and implementation together)."""
FORMAT_VERSION = "1.1"

XML = {
    "odML": {"id", "version", "author", "date", "repository", "section"},
    "section": {"id", "type", "name", "definition", "reference", "link", "repository", "include",
                "section", "property", "sec_cardinality", "prop_cardinality"},
    "property": {"id", "name", "value", "unit", "definition", "dependency", "dependencyvalue", "uncertainty",
                 "reference", "type", "value_origin", "val_cardinality"},
}
XML_CONTAINERS = {"odML", "section", "property"}
XML_REQUIRED = {"odML": set(), "section": {"name", "type"}, "property": {"name"}}

DICT = {
    "root": {"Document", "odml-version"},
    "Document": {"id", "version", "author", "date", "repository", "sections"},
    "section": {"id", "type", "name", "definition", "reference", "link", "repository", "include",
                "sections", "properties", "sec_cardinality", "prop_cardinality"},
    "property": {"id", "name", "value", "unit", "definition", "dependency", "dependencyvalue", "uncertainty",
                 "reference", "type", "value_origin", "val_cardinality"},
}


def xml_violations(root):
    """root: lxml element of a written file.  Returns a list of vocabulary violations."""
    out = []
    if root.tag != "odML":
        return ["root element is <%s>" % root.tag]
    if root.attrib.get("version") != FORMAT_VERSION:
        out.append("root version attribute is %r" % root.attrib.get("version"))
    if set(root.attrib) - {"version"}:
        out.append("root has attributes %r" % sorted(root.attrib))

    def rec(el, kind):
        for ch in el:
            if not isinstance(ch.tag, str):
                continue                      # comments / processing instructions
            if ch.tag.startswith("{http://www.w3.org/1999/XSL/Transform}") and kind == "odML":
                continue                      # the one foreign element of the styled variants
            if ch.tag not in XML[kind]:
                out.append("<%s> inside <%s>" % (ch.tag, kind))
                continue
            if ch.attrib:
                out.append("<%s> carries XML attributes" % ch.tag)
            if ch.tag in ("section", "property"):
                if kind == "odML" and ch.tag == "property":
                    out.append("<property> directly inside <odML>")
                rec(ch, ch.tag)
            elif len(ch):
                out.append("<%s> has child elements" % ch.tag)
        for req in XML_REQUIRED[kind]:
            if el.find(req) is None:
                out.append("<%s> lacks <%s>" % (kind, req))
    rec(root, "odML")
    return out


def dict_violations(data):
    out = []
    if not isinstance(data, dict):
        return ["root is %s" % type(data).__name__]
    if set(data) != DICT["root"]:
        out.append("root keys are %r" % sorted(data))
        return out
    if data["odml-version"] != FORMAT_VERSION:
        out.append("odml-version is %r" % (data["odml-version"],))

    def rec_sec(s, where):
        if not isinstance(s, dict):
            out.append("%s is %s" % (where, type(s).__name__))
            return
        for k in s:
            if k not in DICT["section"]:
                out.append("key %r in a section" % k)
        for req in ("name", "type"):
            if req not in s:
                out.append("section lacks %r" % req)
        for p in s.get("properties", []) or []:
            if not isinstance(p, dict):
                out.append("property is %s" % type(p).__name__)
                continue
            for k in p:
                if k not in DICT["property"]:
                    out.append("key %r in a property" % k)
            if "name" not in p:
                out.append("property lacks 'name'")
        for c in s.get("sections", []) or []:
            rec_sec(c, "section")
    doc = data["Document"]
    if not isinstance(doc, dict):
        return ["Document is %s" % type(doc).__name__]
    for k in doc:
        if k not in DICT["Document"]:
            out.append("key %r in Document" % k)
    for s in doc.get("sections", []) or []:
        rec_sec(s, "section")
    return out
