#!/venv/bin/python
"""Single entry point of the verification machinery.

    run.py <Cxx> [--tier quick|thorough] [--jobs N]
    run.py <Cxx> --replay <file>

Exit 0: the property held on everything explored (or only listed known findings were hit).
Exit 1: at least one line `VIOLATION property=<id> replay=<path>` was printed.
Exit 2: the harness itself is inconsistent (never a verdict about the library).
"""
import argparse
import importlib
import json
import os
import sys
import traceback

HERE = os.path.dirname(os.path.abspath(__file__))
sys.path.insert(0, HERE)

from mc import env  # noqa: E402


def main():
    env.reexec_if_needed()
    ap = argparse.ArgumentParser()
    ap.add_argument("prop")
    ap.add_argument("--tier", default=os.environ.get("VERIF_TIER") or "quick",
                    choices=["quick", "thorough"])
    ap.add_argument("--jobs", type=int, default=0)
    ap.add_argument("--replay")
    args = ap.parse_args()
    if args.jobs:
        os.environ["VERIF_JOBS"] = str(args.jobs)
    prop = args.prop.upper()
    try:
        env.install(silence=True, sync_threads=True)
        mod = importlib.import_module("checks.%s" % prop.lower())
        if args.replay:
            with open(args.replay) as fh:
                rec = json.load(fh)
            env.reset_globals(env.SEED)
            fails = mod.replay(rec)
            env.say("replay of %s: %d failure(s)" % (args.replay, len(fails)))
            for f in fails:
                env.say("  %s %s :: %s" % (f["check"], json.dumps(f["desc"], sort_keys=True),
                                           f.get("explain", "")))
                env.say("    observed: %s" % json.dumps(f.get("observed"), default=repr)[:600])
                env.say("    expected: %s" % json.dumps(f.get("expected"), default=repr)[:600])
            return 1 if fails else 0
        return mod.check(args.tier)
    except env.HarnessError as exc:
        env.note("HARNESS ERROR: %s" % exc)
        return 2
    except Exception:
        env.note("HARNESS ERROR:\n" + traceback.format_exc())
        return 2


if __name__ == "__main__":
    code = main()
    sys.stdout = env.REAL_STDOUT
    sys.stderr = env.REAL_STDERR
    sys.exit(code)
