#!/bin/bash
# benign.sh <patch.diff> [checks...]: apply a property-preserving change in a scratch worktree of /repo HEAD, run the test
# suite and every (or the named) quick check against it; a check that exits non-zero there is a false alarm to look into.
cd "$(dirname "$0")/.."
patch=$(readlink -f "$1"); shift
checks=${@:-$(/venv/bin/python -c "import json; print(' '.join(x['property_id'] for x in json.load(open('MANIFEST.json'))['checks']))")}
W=/tmp/benign-wt-$$; rm -rf $W; git -C /repo worktree add --detach $W HEAD >/dev/null 2>&1
if ! git -C $W apply "$patch" 2>/dev/null; then
  if ! (cd $W && patch -p1 --fuzz=3 --no-backup-if-mismatch < "$patch" >/dev/null 2>&1); then
    echo "PATCH DOES NOT APPLY"; git -C /repo worktree remove --force $W; exit 2; fi
  find $W -name '*.orig' -delete; find $W -name '*.rej' -delete; echo "(applied with fuzz)"
fi
t=$(cd $W && PYTHONPATH=$W /venv/bin/python -m pytest -q -p no:cacheprovider --timeout=900 test/ 2>&1 | tail -1)
echo "tests: $t"
bad=0
for c in $checks; do
  out=$(VERIF_REPO=$W VERIF_EVIDENCE_DIR=$W/_evidence VERIF_REPLAY_DIR=$W/_replays timeout 3000 /venv/bin/python run.py $c --tier quick 2>&1)
  rc=$?
  if [ $rc -ne 0 ]; then bad=1; echo "ALARM $c rc=$rc"; echo "$out" | grep -A1 "^VIOLATION" | grep "^  #" | head -4 | cut -c1-500; else echo "silent $c"; fi
done
git -C /repo worktree remove --force $W
exit $bad
