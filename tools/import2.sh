#!/bin/bash
# import2.sh <Cxx> [checks]: import the two deliverables of a later-wave sub-agent (/tmp/wt2/<Cxx>/_seed/{a,b}) as
# seeded/<Cxx>c and <Cxx>d, remove the scratch worktree, verify both against the named checks (default: <Cxx>)
cd "$(dirname "$0")/.."
p=$1; checks=${2:-$1}; s1=${3:-c}; s2=${4:-d}
head=$(git -C /tmp/wt2/$p rev-parse --short HEAD 2>/dev/null)
for v in a b; do n=$( [ $v = a ] && echo $s1 || echo $s2 ); mkdir -p seeded/$p$n; cp /tmp/wt2/$p/_seed/$v/* seeded/$p$n/ 2>/dev/null
  echo '{"seed":"'$p$n'","property":"'$p'","origin":"later-wave sub-agent in scratch worktree /tmp/wt2/'$p' at repo HEAD '$head' (given only the property text)"}' > seeded/$p$n/meta.json; done
git -C /repo worktree remove --force /tmp/wt2/$p
for n in $s1 $s2; do
  if ! git -C /repo apply --check /verif/seeded/$p$n/patch.diff 2>/dev/null; then bash tools/rebase_seed.sh $p$n | tail -1; fi
  timeout 3000 /venv/bin/python tools/seed.py verify $p$n --checks $checks 2>&1 | tail -4 | cut -c1-400
done
