#!/bin/bash
# import_benign.sh <Bn>: copy the deliverables of a benign-probe sub-agent (/tmp/wt2/<Bn>/_seed/{a,b,c,d}) to benign/<Bn>{a..d}
# and remove its scratch worktree
cd "$(dirname "$0")/.."
b=$1
for v in a b c d; do
  if [ -f /tmp/wt2/$b/_seed/$v/patch.diff ]; then mkdir -p benign/$b$v; cp /tmp/wt2/$b/_seed/$v/* benign/$b$v/; echo "imported benign/$b$v"; fi
done
git -C /repo worktree remove --force /tmp/wt2/$b
