#!/venv/bin/python
"""mkagent.py <Cxx>: scratch worktree /tmp/wt2/<Cxx> of /repo HEAD with _seed/PROPERTY.md (the property text only)."""
import json, os, subprocess, sys
pid = sys.argv[1]
wt = "/tmp/wt2/%s" % pid
os.makedirs("/tmp/wt2", exist_ok=True)
if not os.path.isdir(wt):
    subprocess.check_call(["git", "-C", "/repo", "worktree", "add", "--detach", wt, "HEAD"], stdout=subprocess.DEVNULL)
for l in open(os.path.join(os.path.dirname(os.path.dirname(os.path.abspath(__file__))), "properties.jsonl")):
    d = json.loads(l)
    if d["id"] == pid:
        break
os.makedirs(wt + "/_seed/a", exist_ok=True)
os.makedirs(wt + "/_seed/b", exist_ok=True)
a = d["anchors"]
text = "# %s — %s\n\n## Statement\n%s\n\n## Quantified over\n%s\n\n## Why the existing tests cannot settle it\n%s\n\n## Code it is anchored in\n%s\n\nMechanisms:\n%s\n" % (
    pid, d["title"], d["statement"], d["quantifier"]["text"], d["why_tests_cant"],
    "\n".join("- " + f for f in a["files"]),
    "\n".join("- %s (%s)" % (m["name"], m["where"]) for m in a.get("mechanism", [])))
open(wt + "/_seed/PROPERTY.md", "w").write(text)
print(wt)
