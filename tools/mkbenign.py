#!/venv/bin/python
"""mkbenign.py <Bn> <Cxx,Cyy,...>: scratch worktree /tmp/wt2/<Bn> with _seed/PROPERTIES.md (texts of the named properties)
and _seed/TASK.md: a brief for a sub-agent to produce changes that keep every property true (false-alarm probes)."""
import json, os, subprocess, sys
here = os.path.dirname(os.path.abspath(__file__))
name, pids = sys.argv[1], sys.argv[2].split(",")
wt = "/tmp/wt2/%s" % name
os.makedirs("/tmp/wt2", exist_ok=True)
if not os.path.isdir(wt):
    subprocess.check_call(["git", "-C", "/repo", "worktree", "add", "--detach", wt, "HEAD"], stdout=subprocess.DEVNULL)
for x in "abcd":
    os.makedirs(wt + "/_seed/" + x, exist_ok=True)
text = ""
for l in open(os.path.join(here, "..", "properties.jsonl")):
    d = json.loads(l)
    if d["id"] in pids:
        text += "# %s - %s\n\n## Statement\n%s\n\n## Quantified over\n%s\n\n## Code it is anchored in\n%s\n\n" % (
            d["id"], d["title"], d["statement"], d["quantifier"]["text"], "\n".join("- " + f for f in d["anchors"]["files"]))
open(wt + "/_seed/PROPERTIES.md", "w").write(text)
task = """You are working in a scratch git worktree of the Python library python-odml at {wt} (a detached worktree; work ONLY inside this directory, never touch /repo or /verif, and do not read anything under /verif). The file {wt}/_seed/PROPERTIES.md states several semantic properties of the library that users rely on. Read them carefully and read the code they are anchored in.

Task: produce FOUR independent, realistic changes to the library (a, b, c, d) that each visibly change the code these properties are anchored in - and, where possible, change observable behaviour - but leave EVERY ONE of the stated properties TRUE, for all inputs the properties quantify over. They are meant as probes for an over-strict checker: a checker that demands more than the statements say would raise a false alarm on them. Good candidates:
  - rewording of warning / log / exception messages (keeping what the statements require them to mention, if anything), other exception sub-classes where the statement names none, another rank of detail in messages;
  - behaviour where the statements are silent: the order of siblings or triples in an output file, whitespace / indentation / attribute order / XML declaration of written files, which numeric suffix or which fresh id is chosen, what happens for inputs outside the quantified space, additional optional parameters or methods, additional accepted input spellings;
  - real restructurings that keep behaviour: a different internal representation (e.g. another container type for children or values as long as the public accessors behave the same), caching that is invalidated correctly, replacing recursion by iteration or vice versa, performing checks earlier (never later), splitting or merging helper functions, taking locks or copying defensively;
  - stricter refusal or earlier detection where a statement allows either outcome.
Each change should be something a maintainer could plausibly commit, should touch the anchored code in a non-trivial way (not a comment or rename of a local variable), and must keep the repository's existing test-suite result unchanged. At least two of the four must change observable behaviour (output text, messages, ordering, ...), not just structure.

For each change X in {{a, b, c, d}} deliver into {wt}/_seed/X/ :
  - patch.diff : `git diff` of the change against the worktree's HEAD (apply with `git apply`), touching only files under odml/
  - notes.md   : what was changed, what observable behaviour (if any) differs, and for each property in PROPERTIES.md that the changed code is relevant to, one or two sentences on why it still holds.

Verify yourself, for each change: (1) `git apply` works on a clean checkout of the worktree; (2) with the change applied `cd {wt} && PYTHONPATH={wt} /venv/bin/python -m pytest -q -p no:cacheprovider --timeout=900 test/` gives exactly the same result as without it (on the unchanged tree 238 tests pass and 2 network tests fail: test_version_converter.py::TestVersionConverter::test_handle_include and ::test_handle_repository); (3) you have exercised the changed code with a few inputs of your own and looked for any way it could break one of the statements - if it can, repair or drop the change. Leave the worktree clean (`git checkout -- .`) when you finish; keep only the _seed directory. Report briefly what the four changes are.
""".format(wt=wt)
open(wt + "/_seed/TASK.md", "w").write(task)
print(wt)
