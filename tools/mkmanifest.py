#!/venv/bin/python
"""Regenerates /verif/MANIFEST.json from the table below (keeps it valid at all times)."""
import json
import os

HERE = os.path.dirname(os.path.dirname(os.path.abspath(__file__)))
PY = "/venv/bin/python"

TRUSTED = ("trusted base: CPython 3.12, the harness seams of mc/env.py (deterministic uuid4, fixed "
           "datetime.now, private temp/cache dir, no network, synchronous loader threads outside C18), "
           "the reference models in ref/; the check imports /repo's working tree directly (VERIF_REPO)")

CHECKS = {
    "C01": dict(
        engine="input",
        category="model_checking",
        technique="bounded-exhaustive enumeration of documents (layers of values, attributes, cardinalities, tree shapes, pairs of "
                  "deviations) x writer/reader configurations against a round-trip law, an independent vocabulary check and a "
                  "foreign emitter",
        text="All value lists of length <=2 (quick) / <=3 (thorough) over 25 text atoms (comma, quotes, brackets, list look-alikes, "
             "line breaks incl. U+2028/U+0085, XML metacharacters, non-ASCII, blanks, empty) and the typed atoms of every dtype "
             "incl. n-tuples; every optional attribute x every atom; every cardinality normal form incl. min=max, min 0 and two-digit "
             "bounds; all ordered forests with <=4/5 Sections; all pairs of deviations on 3-node trees; each through 8 writer entries "
             "x compatible readers (string/file, strict/lenient, styled via odml.load): loaded snapshot equals the trimmed original "
             "(ids, order, dtypes, typed values, cardinalities), written text parsed with plain lxml against a hard-coded 1.1 "
             "vocabulary, strict reader without warnings, unrepresentable text makes the writer raise, and files emitted by an "
             "independent emitter (3 renderings) load to the document they describe.",
        design="DESIGN.md C01"),
    "C02": dict(
        engine="input",
        category="model_checking",
        technique="bounded-exhaustive enumeration of documents x {JSON, YAML} x entry points against exact snapshot equality, stock "
                  "json/yaml layout check, foreign dictionaries and cross-format agreement",
        text="The document layers of C01 extended by YAML/JSON look-alike atoms (yes, null, ~, 1e3, dates, 0x1F, ': x', '- a', '#c', "
             "...) and falsy attribute values, x {JSON, YAML} x {to_string/from_string, write_file/from_file, odml.save/odml.load} + "
             "DictWriter.to_dict -> DictReader.to_odml strict and lenient: exact snapshot equality (no trimming), text parsed with "
             "stock json / yaml.safe_load against the hard-coded layout, a dictionary built from the snapshot without the library in "
             "three renderings (compact JSON, flow YAML, block YAML with reversed keys) loads to the same document, JSON = YAML = XML.",
        design="DESIGN.md C02"),
    "C03": dict(
        engine="history",
        category="model_checking",
        technique="explicit-state BFS over operation histories on the real objects (invariant on every state)",
        text="Every history of <=2 (quick) / <=3 (thorough, depth 3 over the structural core) public editing "
             "operations from two start states over a 9-object pool with colliding names is executed on the real "
             "classes; the tree invariant is evaluated by an independent walker after every transition, "
             "including refused ones. Bounded-exhaustive: what is claimed is the absence of violations "
             "within the stated depth and alphabet.",
        design="DESIGN.md 2.4, C03"),
    "C04": dict(
        engine="history",
        category="model_checking",
        technique="explicit-state BFS over operation histories on the real objects (invariant + step oracle)",
        text="Same exploration as C03 with rename / new_id / constructor-with-id operations over 10 id atoms; "
             "sibling-name uniqueness, non-empty names and canonical ids are checked in every reached state.",
        design="DESIGN.md 2.4, C04"),
    "C05": dict(
        engine="history",
        category="model_checking",
        technique="explicit-state BFS over value/dtype operations on one real Property (invariant, atomicity, normal-form laws)",
        text="From every Property(values=atom, dtype=spelling) the constructor accepts (58 value atoms x 31 dtype "
             "spellings) every sequence of <=2 further value-editing operations (values=, dtype=, append/extend/insert "
             "strict and lenient, item assignment, remove, merge, clone, re-assignment) is executed; after each step: "
             "exact Python type of every stored value, refused operations change nothing and raise ValueError, "
             "text round trip and self-assignment are the identity.",
        design="DESIGN.md 2.4, C05"),
    "C06": dict(
        engine="history",
        category="model_checking",
        technique="explicit-state BFS; full before/after observation around every raising transition",
        text="BFS over the union alphabet (structure, ids, values/dtype, cardinalities, constructors with parent= "
             "and invalid arguments, unresolvable link/include); for every transition that raises, all attributes "
             "and child lists (by identity) of every pooled object must be unchanged.",
        design="DESIGN.md 2.4, C06"),
    "C07": dict(
        engine="fault",
        category="fault_enumeration",
        technique="exhaustive enumeration of failure causes: document invalidity kinds x natural serialisation failures x one "
                  "injected exception per serialisation call site (first / last call) x formats x entry points x target states",
        text="The complete product of 3 documents x 12 ways of being invalid (missing/empty Section type at two depths, duplicate "
             "ids among siblings, with the Document, across branches, duplicate sibling names) x 6 natural serialisation failures "
             "(text XML cannot hold in value/attribute/name, objects json cannot encode at three levels) and 10 injected call "
             "sites x {XML plain/local_style/custom_template, JSON, YAML, RDF x 11 sub-formats + an unsupported one} x "
             "{odml.save, ODMLWriter.write_file, XMLWriter.write_file, RDFWriter.write_file} x target {absent, present, without "
             "extension} is executed in a scratch directory whose names and bytes are compared before and after: invalid => "
             "ParserException; any raise => nothing created, changed or removed; otherwise exactly one file written that loads "
             "back equal, warnings reported.",
        design="DESIGN.md 2.7, C07"),
    "C08": dict(
        engine="input",
        category="model_checking",
        technique="bounded-exhaustive enumeration of invalidity knobs against a reference implementation of the documented rules",
        text="Every forest of <=3 Sections with all single invalidity knobs and all pairs (triples on one Section, thorough) "
             "is validated as Document and from every Section and Property as root by the real Validation class; the set "
             "of (object, issue kind, rank) is compared, kind by kind, with ref/validation.py (three-valued: MUST / MAY / "
             "MUST NOT; clash groups n-1..n).",
        design="DESIGN.md C08"),
    "C09": dict(
        engine="input",
        category="model_checking",
        technique="exhaustive grid enumeration + all short count-changing histories against a three-valued reference",
        text="The complete grid of cardinality settings x previous setting x child counts 0..5 x three kinds x three "
             "routes is executed on real objects and compared with a three-valued reference normaliser (MUST / "
             "MUST-RAISE / EITHER); the warning-iff-outside-range rule is checked for every cell and after every step "
             "of all histories of <=4 (quick) / <=6 (thorough) set/add/remove/clear/add-a-child-of-the-other-kind steps, Sections also carrying "
             "children of the kind that is not counted; every normal-form cardinality "
             "with bounds <=3 is saved and reloaded in XML, JSON, YAML through string, file and odml.save/load.",
        design="DESIGN.md C09"),
    "C10": dict(
        engine="input",
        category="model_checking",
        technique="bounded-exhaustive enumeration of documents and document lists x RDF serialisations x sub-classing modes x entry "
                  "points against a reference graph shape (rdflib triple API only) and a snapshot projection of the import",
        text="Value lists of length <=2 over the atoms of every dtype (incl. n-tuples, 10**20, 1/3, quotes/newlines/non-ASCII) plus "
             "lists of 10 and 12 values, every RDF-carried attribute x every text atom (uncertainty incl. 0), all forests with <=3/4 "
             "Sections, lists of 1-3 documents with default-mapped, unmapped and custom-mapped Section types; x {xml, nt, json-ld, "
             "turtle, n3} x sub-classing on/off/custom x {get_rdf_str/from_string, write_file/from_file, odml.save/ODMLReader, one writer object asked twice}: the "
             "writer's graph and the re-parsed text satisfy the shape (one Hub, nodes named by id, one rdf:type, exactly the set "
             "attributes with typed values, child edges, one rdf:Seq with members 1..n in order); the import returns the same "
             "documents modulo sibling order; exporting changes nothing.",
        design="DESIGN.md C10"),
    "C11": dict(
        engine="history",
        category="model_checking",
        technique="enumeration of copy points x exhaustive edit sequences up to a depth, differential snapshots of both sides",
        text="Every node of a document (all dtype classes incl. n-tuples, cardinalities, a resolved link) as clone root x "
             "children x keep_id, export_leaf of every node, the values getter, lists passed in, and "
             "TemplateHandler.clone_section; equality, detachment, identity-disjointness (objects, value lists, nested "
             "lists) and id freshness at copy time; then every single edit on every node of either side and all edit "
             "sequences of length 2 (quick) / 3 (thorough) at five copy points: the other side's snapshot must not change.",
        design="DESIGN.md C11"),
    "C12": dict(
        engine="input",
        category="model_checking",
        technique="exhaustive enumeration of small trees x (linker, target) pairs x path forms, each driven through a fixed "
                  "finalize/clean/save/load history against an independent resolver and snapshot algebra",
        text="Every ordered forest with <=5 (quick) / <=6 (thorough) Sections, with document-unique names and with Section "
             "names that repeat across parallel branches, x every admissible (linker, target) pair x {absolute, relative, "
             "./relative} path x own-children variants (incl. a target whose Property and sub-Section share a name; every third Section empty) x {link, "
             "include with and without #path}; all non-nested placements "
             "of two links; each followed by finalize, clean, finalize, finalize, clean, clean, save+load (XML, JSON), "
             "finalize on the real classes: copies only, nothing outside the linker changes, clean restores, the stored "
             "reference still designates the target (compared by resolution through ref/paths.py).",
        design="DESIGN.md C12"),
    "C13": dict(
        engine="input",
        category="model_checking",
        technique="deviation-bounded exhaustive enumeration of (dest, src) tree pairs against a reference merge model",
        text="A compatible depth-2 baseline pair with matched, dest-only and src-only children on every level, deviated by "
             "every single variation and every pair of variations (181 variations; triples over every third, thorough: attribute state per attribute and "
             "location, uncertainty value pairs incl. 0, dtype/value relations, Section type clashes at each depth, a Property named like a sibling Section in dest / src / both) x "
             "orders of the source's children x strict on/off, merged by the real Section.merge; ref/merge.py decides "
             "MUST-RAISE / MAY-RAISE / MUST-SUCCEED and checks every postcondition clause and all-or-nothing.",
        design="DESIGN.md C13"),
    "C14": dict(
        engine="input",
        category="model_checking",
        technique="exhaustive enumeration of all small trees and name assignments against an independent resolver / BFS",
        text="All ordered forests with <=5 (quick) / <=6 (thorough) Sections x all sibling-unique assignments of the names "
             "{a, ab, a.b, b, A} (prefixes, a dot, a pair differing only in case; every third Section empty, i.e. falsy): every absolute path from the Document and from every Section, every ordered pair for relative "
             "paths (the library's own, './' + path, and a detour through every child Section), every start x max_depth x yield_self x filter for itersections/iterproperties/itervalues (exact "
             "breadth-first sequence by identity), find/find_related over keys x types x all 32 flag combinations "
             "(trees <=4/5), plus four large deterministic trees; compared with ref/paths.py.",
        design="DESIGN.md C14"),
    "C15": dict(
        engine="input",
        category="model_checking",
        technique="deviation-bounded exhaustive enumeration of abstract 1.0 documents (rendered to 1.0 XML/JSON/YAML by an independent "
                  "generator) against a reference mapping to 1.1",
        text="A 1.0 baseline deviated by every single deviation and every pair (triples over a core, thorough) out of 90: 0-3 value "
             "elements, value texts with comma / brackets / quote / padding / empty / non-ASCII at first, later and single position, "
             "each liftable attribute on the first, a later, all, conflicting value elements and on a text-less value element, "
             "int/float type conflict, dtype spelling, binary, clashing names (p,p / p,p,p / p,p,p-2 / p,p-2,p / p,q,p) among "
             "Properties, top-level and nested Sections, a sub-Section and a Property sharing a name, id forms x three levels, "
             "unsupported elements at four levels, unnamed Properties at three positions, dependency_value spellings; x {XML StringIO, "
             "XML file, JSON file, YAML file} x {convert, str, write_to_file}: output loads in the strict reader, equals the "
             "reference mapping, every dropped or overridden item is in the log, the source is untouched.",
        design="DESIGN.md C15"),
    "C16": dict(
        engine="input",
        category="model_checking",
        technique="bounded-exhaustive enumeration of reader inputs (all short strings, grammar trees, every single structural "
                  "mutation of seed files, dictionary mutations) against an outcome invariant",
        text="(a) all 597 871 strings of length <=6 (quick) / 48 427 561 of length <=8 (thorough) over {< > / a \" = space & [}, bare and "
             "inside a valid odML frame; (b) 4 912 grammar documents: every odML / unknown / upper-case element under the root, every "
             "pair of children of a Section and of a Property x text variants per slot (unparsable ids, dates, cardinalities incl. Unicode digits, values incl. one of 140 000 "
             "characters, dtypes), value x dtype x cardinality, duplicate names and ids, link/include combinations, XML attributes, PIs, comments, "
             "CDATA, entities, namespaces, declarations, versions; (c) every single mutation (delete, duplicate, re-tag x10, swap, "
             "move under every node, 8 texts, attribute) of every node of three seed files (2 163 inputs; pairs on one seed, "
             "thorough); (d) 571 dictionary mutations through DictReader and as JSON/YAML text through ODMLReader; x strict/lenient x "
             "string/file: outcome is a Document or ParserException (InvalidVersionException exactly for another odML version), "
             "lenient never raises on well-formed current odML, strict-raises implies lenient-warns, untouched seed objects "
             "survive, every returned Document satisfies the C03/C04 invariants.",
        design="DESIGN.md C16"),
    "C17": dict(
        engine="fault",
        category="fault_enumeration",
        technique="exhaustive enumeration of sequences of file kinds (valid and faulty) x placement x options x tool; directory tree "
                  "compared byte for byte before and after, outputs loaded and compared with a reference conversion",
        text="Every sequence of <=2 out of 24 file kinds (valid 1.0/1.1 in XML/JSON/YAML with .xml and .odml, and empty / plain text / "
             "malformed XML / XML of another vocabulary under each of .xml .odml .json .yaml) x all placements (top / sub-directory) "
             "x -r x implicit / explicit output, and every sequence of 3 (thorough: 4 with one bad file) out of 10 core kinds, for "
             "odmlconvert and odmltordf; FormatConverter.convert_dir over sequences of <=2 kinds x 12 target formats. Input bytes "
             "and listing unchanged, everything created inside a new directory at the expected place, the command line tools "
             "return whatever the mixture, every convertible file in scope has an output that loads (XML reader / plain rdflib) "
             "and carries the content of its source (reference 1.0->1.1 mapping), every bad file is reported with an error and "
             "has no output.",
        design="DESIGN.md C17"),
    "C18": dict(
        engine="schedule",
        category="model_checking",
        technique="stateless model checking of the real loader code on real threads under a baton-passing scheduler, "
                  "iterative preemption bounding (all schedules with <=2 quick / <=3 thorough preemptions)",
        text="Fourteen caller scenarios (same URL twice, chain, two and three deferred loads racing for included URLs, diamond, missing / "
             "unparsable / undecodable resource directly and through an include, refresh of an included resource, object API include/repository/terminology equivalents, "
             "refresh during a deferred load, clone_section) x cache {empty, warm, stale with changed source, stale with "
             "removed source} x {Terminologies, TemplateHandler}: every interleaving of the caller and the loader threads at "
             "every access to the loaded/loading tables, the reload flag and at thread start (before/after), join and exit, "
             "up to the preemption bound (the five smallest scenarios: every interleaving, no bound), is executed; per execution the caller's observations at return time are compared "
             "with an independent resolution of the resource files, identity of later loads, no exception, no deadlock, "
             "cache directory clauses, and all schedules of a variant must give the same observations.",
        design="DESIGN.md 2.6, C18"),
    "C19": dict(
        engine="history",
        category="model_checking",
        technique="exhaustive enumeration of validator-use event histories on the real classes; registry invariant, "
                  "purity by snapshot, differential against a twin document, cross-process comparison",
        text="Every sequence of <=3 (quick: depth 2 over 33 events, depth 3 over 17) / <=4 (thorough) events - default "
             "validations of Document/Section/Property, report(), re-run, custom reset=True instances with marker rules "
             "in both constructor forms, object creation attached/detached/with cardinalities, cardinality setters, "
             "saves and loads in XML/JSON/YAML - in-place value edits - over seven documents (valid, warnings, cardinalities, deep, errors, "
             "empty, one naming a repository); after the last event: registry identical to import time, validated objects unchanged, default "
             "validation equals that of a twin that only saw the editing events, repeats identically, custom "
             "instances report exactly their own rules (also when re-run), the live document validates like a copy written out "
             "and read back. The saved family is validated in 4 (12) "
             "child processes with different PYTHONHASHSEED and the issue multisets compared.",
        design="DESIGN.md C19, 10.1"),
    "C20": dict(
        engine="input",
        category="model_checking",
        technique="bounded-exhaustive enumeration of queries over small document sets against a reference evaluation on the source "
                  "documents; the finder's printed output is parsed combination by combination",
        text="Six document sets (1-3 documents, Sections on two levels, attribute values from a two-letter pool) exported without "
             "sub-classing x every query of <=2 (quick) / <=3 (thorough) attribute/value pairs of one kind over all RDF-model "
             "attributes incl. id, date, uncertainty (values present or absent) + multi-kind queries (Doc+Sec, Sec+Prop, "
             "Doc+Sec+Prop) x string and dictionary parameters, each chunk of queries run forwards and backwards in one process, one finder object re-used on another graph, + "
             "fuzzy queries: for every non-empty combination of the given pairs the finder reports it iff the reference result "
             "is non-empty, with exactly the reference rows, ordered most specific first; nothing raises.",
        design="DESIGN.md C20"),
}

NOT_YET = {}

# Layers added after the texts above were written (seventh / eighth wave of seeded changes); appended to the level text.
EXTRA = {
    "C01": " Added later: long text (up to 5 000 characters, foldable, with leading / double / trailing blanks) as value and in "
           "every text attribute; ids of other uuid versions and hand-assigned ids on Document, Section and Property; names that "
           "coincide across kinds (a sub-Section and a Property of one name), across levels, up to case, as prefix, and names "
           "that look like element tags or numbers.",
    "C02": " Added later: the long-text, id-form and name-coincidence layers of C01.",
    "C03": " Positions include negative ones inside and beyond the list (-2, -4, -99) and a float.",
    "C04": " Positions as in C03; an operation that leaves a child list with one name twice is reported even when the resulting "
           "state also breaks the tree invariant (such states are not expanded).",
    "C06": " Plus a layer 'merges of whole trees': every (destination, source) pair of the C13 generator (73 588 in the quick "
           "tier) is merged and, where the merge raises, the destination must be unchanged.",
    "C07": " Added later: failure causes that lie in the environment of the call - warnings turned into errors, an ASCII locale "
           "with non-ASCII text.",
    "C08": " Added later: sibling Sections / Properties whose (name, type) pairs differ but look alike when joined or rendered "
           "(separator shifted between name and type, None vs 'None' vs '', case, blanks, composed vs decomposed letters), "
           "look-alike dependency names, ids differing in case only.",
    "C09": " Added later: layer 'multi' - 13 document shapes with 1-3 objects under test incl. content-equal twins, every count "
           "vector, validated as a whole, per sub-tree and per object, judged per object by identity; boolean and "
           "empty-element settings.",
    "C10": " Added later: the long-text, id-form and name-coincidence layers of C01; layer W - one writer object across export, "
           "edit (61 entity edits, 10 edits of writer.docs, 9 two-edit sequences), export again, 11 / 144 call pairs.",
    "C11": " Added later: documents 'dtypes' (18 dtype families and spellings) and 'links' (resolved links that took over "
           "attributes); edits of (inner) lists handed out by copies; a two-sided layer - every [copy x, original y] and "
           "[original y, copy x] over the link alphabet, each side compared with a twin that saw only its own edits.",
    "C12": " Added later: targets holding values for which equality is not reflexive or crosses types (NaN, inf, -0.0, 1 / 1.0 / "
           "True / '1', huge ints, empty Properties) and content-equal twins.",
    "C13": " Plus a layer of merge sequences: destinations that carry state from an earlier merge (another source, the same "
           "source again, a clone of it, merges one and two levels further down, strict after non-strict, refused after "
           "successful and vice versa, first-second-first), each step judged by the reference applied to the state before it.",
    "C14": " Plus a layer of start points outside any Document (trees built without one, sub-trees removed from one, clones with "
           "and without children): traversal and find clauses from every node; path clauses are not judged there.",
    "C15": " Added later: XML through a StringIO that holds the XML declaration; YAML written from shared sub-structures (anchors "
           "and aliases) for documents with repeated values / Properties / sub-Sections; null entries in the dictionary forms; "
           "value text placed after the value's child elements.",
    "C16": " Added later: layer (e) deep nesting (14 XML and 8 dictionary shapes at 9 / 21 depths up to 3 000 / 10 000) and layer (f) "
           "pumped input (runs of 30 / 64 / 5 000 of one unit at 13 XML and 5 dictionary sites), each reader call under its own "
           "processor-time watchdog ('never hangs'); the survivors oracle forgives an attribute-level mutation only the "
           "attribute it touched (the object keeps its id and its other attributes) and a duplicated element only itself; "
           "JSON / YAML text is also read with the reader's default option show_warnings (validation after loading).",
    "C17": " Added later: seven spellings of the search / input directory (relative, through '..', trailing separator, below a "
           "hidden directory, names with regular-expression metacharacters or a blank), base names that resemble derived output "
           "names (a / a_conv), and for the format converter every output that exists is loaded and compared with its source.",
    "C18": " The scheduler also controls Lock, RLock, Event, Condition, Semaphore and sleep (blocking is modelled, timed waits "
           "expire only when nothing else can run, polling loops have a yield horizon), so library code that synchronises "
           "is explored rather than hanging the harness (tools/sched_selftest.py: 13 toy programs with known outcome sets).",
    "C19": " Added later: string Properties whose values look like several other dtypes (ties), documents with unresolved and "
           "resolved links / includes with cardinalities, 8 / 24 hash seeds in the other-process layer, merged state in the snapshot.",
    "C20": " Added later: a document set whose objects carry characters special to Python format strings, SPARQL literals, XML, "
           "regular expressions and the query's own variable names (33 + 9 backslash / control atoms) asked through every entry; a "
           "document set and queries in which one attribute=value is asked of two kinds with a hit for exactly one of them.",
}


def main():
    props = [json.loads(l) for l in open(os.path.join(HERE, "properties.jsonl"))]
    checks, na = [], []
    for p in props:
        pid = p["id"]
        c = CHECKS.get(pid)
        if c is None:
            na.append({"property_id": pid,
                       "reason": NOT_YET.get(pid, "check not built yet in this round (design in DESIGN.md section 3); "
                                                  "not a limitation of the technique")})
            continue
        checks.append({
            "property_id": pid,
            "quick_cmd": "%s run.py %s --tier quick" % (PY, pid),
            "thorough_cmd": "%s run.py %s --tier thorough" % (PY, pid),
            "evidence_file": "evidence/%s.json" % pid,
            "replay_cmd_template": "%s run.py %s --replay {path}" % (PY, pid),
            "engine": c["engine"],
            "level_claimed": {"category": c["category"], "text": c["text"] + EXTRA.get(pid, ""), "design_ref": c["design"]},
            "level_note": c.get("note", TRUSTED),
            "technique": c["technique"],
        })
    man = {
        "version": 1,
        "setup_cmd": "%s tools/setup_check.py" % PY,
        "hooks": {
            "guard": "ODML_VERIF",
            "enable": "none needed: every seam is installed from the harness by rebinding module attributes "
                      "(mc/env.py); the checks import /repo's working tree directly, there is no build step",
            "baseline_off_cmd": "cd /repo && /venv/bin/python -m pytest -q -p no:cacheprovider --timeout=900 test/",
            "source_commits": [],
            "add_only": True,
        },
        "engines": [
            {"name": "history", "path": "mc/hist.py", "serves_properties": ["C03", "C04", "C05", "C06", "C09", "C11", "C19"],
             "kind_free_text": "explicit-state breadth-first search over histories of real public operations"},
            {"name": "input", "path": "mc/par.py", "serves_properties": ["C01", "C02", "C08", "C10", "C12", "C13", "C14", "C15", "C16", "C20"],
             "kind_free_text": "deviation-bounded exhaustive enumeration of input shapes against reference models"},
            {"name": "schedule", "path": "mc/sched.py", "serves_properties": ["C18"],
             "kind_free_text": "stateless exploration of thread interleavings of the real code, iterative preemption bounding"},
            {"name": "fault", "path": "mc/fault.py", "serves_properties": ["C07", "C17"],
             "kind_free_text": "exhaustive enumeration of failure causes / injected serialisation faults"},
        ],
        "checks": checks,
        "not_applicable": na,
        "notes": "All checks: `run.py <id> --tier quick|thorough`; exit 0 / 1 (+VIOLATION line) / 2 (harness error). "
                 "Known findings: known_findings.json. Seeded property-breaking changes: seeded/<id>/.",
    }
    with open(os.path.join(HERE, "MANIFEST.json"), "w") as fh:
        json.dump(man, fh, indent=1)
        fh.write("\n")
    print("MANIFEST.json: %d checks, %d not_applicable" % (len(checks), len(na)))


if __name__ == "__main__":
    main()
