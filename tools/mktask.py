#!/venv/bin/python
"""mktask.py <Cxx> [--benign]: scratch worktree /tmp/wt2/<Cxx> (via mkagent.py) plus _seed/TASK.md, the full brief for a
sub-agent: break the property in two new ways (earlier slips, read off the DESIGN.md 10.4 table, are listed as not wanted)."""
import os, re, subprocess, sys
here = os.path.dirname(os.path.abspath(__file__))
pid = sys.argv[1]
subprocess.check_call(["/venv/bin/python", os.path.join(here, "mkagent.py"), pid], stdout=subprocess.DEVNULL)
wt = "/tmp/wt2/%s" % pid
design = open(os.path.join(here, "..", "DESIGN.md")).read()
sec = design[design.index("### 10.4"):design.index("## 11.")]
earlier = []
for m in re.finditer(r"^\| (%s[a-z]) \| (.*?) \|" % pid, sec, re.M):
    txt = re.sub(r"\((second|third|fourth|fifth|sixth) wave[^)]*\)", "", m.group(2)).strip()
    earlier.append("- " + txt)
HINTS = {
 "C01": "attribute spellings in odml/format.py maps; the XML writer's handling of values that need CSV-like quoting; tuples; empty versus missing attributes; Section-level attributes (repository, link, include, reference); values whose text looks like another type; writer options; ODMLWriter/ODMLReader wrappers versus the XML classes; odml.save/odml.load; how ids are (re)generated",
 "C02": "DictWriter/DictReader key maps; which attributes are skipped when empty; nested Sections; Property attributes that only appear with particular combinations (value_origin, dependency, dependency_value, val_cardinality, uncertainty, reference); JSON versus YAML scalar typing (dates, datetimes, booleans, numbers in strings); the odml-version header; from_string versus from_file",
 "C03": "parent pointers and child lists in append/extend/insert/remove/reorder/clone/merge/__setitem__/assignment of .parent, .sections, .properties; moving an object that already has a parent; inserting into an ancestor or itself; SmartList operations (sort, __delitem__, slices, pop, clear); Document versus Section as parent",
 "C04": "name and id setters, new_id, clone(keep_id), rename to a sibling's name, SmartList __setitem__ and insert, name defaulting to the id, type defaults, id validation (uuid forms)",
 "C05": "odml/dtypes.py converters (get/set functions per dtype, tuple parsing, boolean spellings, date/time/datetime forms, int from float text), Property.values setter/extend/append/insert/__setitem__/remove, dtype setter with existing values, infer_dtype, the text/string distinction, person/url",
 "C06": "check-then-act order in setters and list operations (values, dtype, name, id, parent, unit, uncertainty, cardinalities), extend with a partially valid list, insert with a clashing name, exceptions raised after a partial mutation, SmartList.extend, Section.extend with mixed kinds, Property.extend(strict)",
 "C07": "odml.save / ODMLWriter.write_file / XMLWriter.write_file / RDFWriter.write_file: validation before writing, when the target file is opened, temporary files, what happens for warnings versus errors, file extensions, an existing target, exceptions from rendering after the file was opened, the JSON/YAML/RDF branches separately",
 "C08": "odml/validation.py rules: which objects each rule visits, rank (error/warning), messages are not judged but the set of (object, rule, rank) is; required attributes, unique names and ids, string-looking values, dependency rules, terminology-related rules without network, Property versus Section versus Document scope, IssueID assignment, validation of a sub-tree",
 "C09": "cardinality setters (format_cardinality, tuples/lists/None/0, min > max, negatives), set_values_cardinality / set_properties_cardinality / set_sections_cardinality, when the cardinality validation fires (on set, on append/remove, on load), persistence in XML/JSON/YAML, clone and merge carrying cardinalities",
 "C10": "odml/tools/rdf_converter.py: which attributes are written when falsy/zero, Bag/Seq handling of values, ordering of values, typed literals, sub-classing, several documents in one graph, hasFileName, the reader's parse of sequences (rdf:_1 ... rdf:_10 ordering), ids, dates, Section type to class mapping, get_rdf_str versus write_file",
 "C11": "clone(children, keep_id), copy/deepcopy hooks, what is shared between original and copy (value lists, cardinality tuples, terminology/repository, link/include state, _merged, parent), equality (__eq__) of Sections/Properties/Documents, Document clone if any, clone of a linked Section",
 "C12": "Section.link/include setters, merge(strict=False) used by linking, unmerge, clean, Document.finalize, get_merged_equivalent, is_merged, chains of links, links to a target that itself links, Properties with the same name in linker and target, removing the link again, saving a linked document",
}
task = """You are working in a scratch git worktree of the Python library python-odml at {wt} (a detached worktree; work ONLY inside this directory, never touch /repo or /verif, and do not read anything under /verif). The file {wt}/_seed/PROPERTY.md states one semantic property of the library that users rely on. Read it and read the code it is anchored in (line numbers in PROPERTY.md may be slightly off; the code is what counts).

Task: produce TWO independent, realistic changes to the library (call them a and b) that each BREAK this property, while the code still imports and the repository's existing test-suite still passes. Each change should look like something a maintainer could plausibly commit (a refactoring, a performance clean-up, a small feature, a 'robustness' fix), NOT an obviously sabotaging edit.

This is a late round. The following slips have already been produced by others and are NOT wanted again (nor close variants of them):
{earlier}

Look for something subtler and different. Places worth reading: {hints}. A cooperation of two sites that each look fine alone is welcome. A change that needs something specific to manifest - a particular value, a particular combination of attributes, a particular order of operations, a particular entry point or option, state left by an earlier call on the same object - is preferred over one that any use exposes. The change must break what the property STATES, for inputs the property QUANTIFIES over - not merely change behaviour the statement is silent about.

For each change X in {{a, b}} deliver into {wt}/_seed/X/ :
  - patch.diff : `git diff` of the change against the worktree's HEAD (apply with `git apply`), touching only files under odml/
  - demo.py    : a small stand-alone deterministic program (run as `PYTHONPATH={wt} /venv/bin/python demo.py` from any directory; no network) that exits 0 on the unchanged worktree and exits 1, printing what went wrong, with the change applied.
  - notes.md   : what was changed, which clause of the property it breaks, what is needed to make it manifest, and the exact commands you ran with their results.

Verify all of this yourself before finishing, for each change: (1) `git apply` works on a clean checkout of the worktree; (2) with the change applied `cd {wt} && PYTHONPATH={wt} /venv/bin/python -m pytest -q -p no:cacheprovider --timeout=900 test/` gives exactly the same result as without it (on the unchanged tree 238 tests pass and 2 network tests fail: test_version_converter.py::TestVersionConverter::test_handle_include and ::test_handle_repository); (3) demo.py exits 1 with the change and 0 without. If the unchanged tree itself already breaks the property for some input you come across, do not use that input; mention it in your final report instead. Leave the worktree clean (`git checkout -- .`) when you finish; keep only the _seed directory. Report briefly what the two changes are.
""".format(wt=wt, earlier="\n".join(earlier) or "- (none)", hints=HINTS.get(pid, "the code the property is anchored in"))
open(wt + "/_seed/TASK.md", "w").write(task)
print(wt + "/_seed/TASK.md", len(earlier), "earlier slips listed")
