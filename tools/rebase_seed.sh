#!/bin/bash
# rebase_seed.sh <seed-id>: re-create seeded/<id>/patch.diff against /repo HEAD using patch(1) with fuzz
set -e
W=/tmp/rebase-wt-$$; rm -rf $W; git -C /repo worktree add --detach $W HEAD >/dev/null 2>&1
cd $W
if patch -p1 --fuzz=3 --no-backup-if-mismatch < /verif/seeded/$1/patch.diff; then
  find . -name '*.orig' -delete; find . -name '*.rej' -delete
  git diff > /verif/seeded/$1/patch.diff; echo "rebased $1"
else
  echo "FAILED to rebase $1"
fi
git checkout -q -- . ; cd /verif; git -C /repo worktree remove --force $W
