#!/bin/bash
# runall.sh [tier]: every registered check once on /repo's working tree; one line per check
cd "$(dirname "$0")/.."
tier=${1:-quick}
for c in $(/venv/bin/python -c "import json; print(' '.join(x['property_id'] for x in json.load(open('MANIFEST.json'))['checks']))"); do
  s=$(date +%s)
  out=$(timeout 3000 /venv/bin/python run.py $c --tier $tier 2>&1 | tail -1 | cut -c1-160)
  echo "$c rc=$? $(( $(date +%s) - s ))s :: $out"
done
