#!/venv/bin/python
"""Self-test of the schedule engine (mc/sched.py) on toy programs with known answers.

Each toy uses the controlled stand-ins exactly as library code would use `threading`.  For every toy the complete
schedule space (no preemption bound) is explored and the set of outcomes is compared with what is known to be
possible.  Exit 0 when all agree."""
import os
import sys

sys.path.insert(0, os.path.dirname(os.path.dirname(os.path.abspath(__file__))))
from mc import sched  # noqa: E402

T = sched.ThreadingShim()
TIME = None


class Cell(sched.TableMixin, dict):
    _table_name = "cell"


def explore(body_factory, bound=99):
    outcomes = {}

    def execute(prefix):
        box = {}
        s = sched.run_one(lambda: body_factory(box), prefix, timeout=10)
        s.box = box
        return s

    def on_exec(s, choices):
        if s.deadlock:
            key = "deadlock"
        elif getattr(s, "livelock", False):
            key = "livelock"
        elif getattr(s, "timed_out", False):
            key = "timeout"
        else:
            key = repr(s.box.get("result"))
        outcomes[key] = outcomes.get(key, 0) + 1
    st = sched.explore(execute, bound, on_execution=on_exec)
    return outcomes, st["executions"]


def counter(lock_kind):
    def body(box):
        cell = Cell(n=0)
        lock = lock_kind() if lock_kind else None

        def inc():
            if lock:
                lock.acquire()
            v = cell["n"]
            cell["n"] = v + 1
            if lock:
                lock.release()
        ts = [T.Thread(target=inc) for _ in range(2)]
        for t in ts:
            t.start()
        for t in ts:
            t.join()
        box["result"] = dict.__getitem__(cell, "n")
    return body


def inversion(box):
    a, b = T.Lock(), T.Lock()

    def one():
        with a:
            with b:
                pass

    def two():
        with b:
            with a:
                pass
    ts = [T.Thread(target=one), T.Thread(target=two)]
    for t in ts:
        t.start()
    for t in ts:
        t.join()
    box["result"] = "done"


def event_handoff(box):
    cell = Cell()
    ev = T.Event()

    def producer():
        cell["x"] = 1
        ev.set()
    t = T.Thread(target=producer)
    t.start()
    ev.wait()
    box["result"] = cell.get("x")
    t.join()


def event_missing_set(box):
    ev = T.Event()
    t = T.Thread(target=lambda: None)
    t.start()
    ok = ev.wait(0.1)            # nobody sets it: the timeout must end the wait
    t.join()
    box["result"] = ok


def condition_queue(box):
    items = []
    cv = T.Condition()

    def consumer():
        with cv:
            while not items:
                cv.wait()
            box["result"] = items.pop()

    def producer():
        with cv:
            items.append(7)
            cv.notify()
    ts = [T.Thread(target=consumer), T.Thread(target=producer)]
    for t in ts:
        t.start()
    for t in ts:
        t.join()


def polling(box):
    cell = Cell()
    tm = sched.TimeShim(__import__("time"))

    def producer():
        cell["x"] = 1
    t = T.Thread(target=producer)
    t.start()
    while "x" not in cell:
        tm.sleep(0.01)
    box["result"] = cell["x"]
    t.join()


def polling_for_ever(box):
    cell = Cell()
    tm = sched.TimeShim(__import__("time"))
    t = T.Thread(target=lambda: None)
    t.start()
    while "x" not in cell:
        tm.sleep(0.01)
    box["result"] = "never"


def rlock_reentry(box):
    r = T.RLock()
    with r:
        with r:
            box["result"] = "in"


def plain_lock_reentry(box):
    r = T.Lock()
    with r:
        with r:
            box["result"] = "in"


def semaphore_two(box):
    sem = T.Semaphore(1)
    cell = Cell(n=0, peak=0)

    def w():
        with sem:
            n = cell["n"] + 1
            cell["n"] = n
            if n > cell["peak"]:
                cell["peak"] = n
            cell["n"] = cell["n"] - 1
    ts = [T.Thread(target=w) for _ in range(2)]
    for t in ts:
        t.start()
    for t in ts:
        t.join()
    box["result"] = dict.__getitem__(cell, "peak")


CASES = [
    ("unlocked counter: the lost update exists", counter(None), lambda o: set(o) == {"1", "2"}),
    ("unlocked counter: not seen without preemption", counter(None), lambda o: set(o) == {"2"}, 0),
    ("counter under Lock: always 2", counter(lambda: T.Lock()), lambda o: set(o) == {"2"}, 3),
    ("counter under RLock: always 2", counter(lambda: T.RLock()), lambda o: set(o) == {"2"}, 2),
    ("lock order inversion: deadlock found, and completion too", inversion, lambda o: set(o) == {"deadlock", "'done'"}, 2),
    ("event hand-off: consumer always sees the value", event_handoff, lambda o: set(o) == {"1"}),
    ("event never set: timed wait returns False", event_missing_set, lambda o: set(o) == {"False"}),
    ("condition queue: item always delivered", condition_queue, lambda o: set(o) == {"7"}, 3),
    ("polling loop with sleep terminates", polling, lambda o: set(o) == {"1"}),
    ("polling loop that can never succeed is a livelock", polling_for_ever, lambda o: set(o) == {"livelock"}),
    ("RLock re-entry works", rlock_reentry, lambda o: set(o) == {"'in'"}),
    ("plain Lock re-entry is a deadlock", plain_lock_reentry, lambda o: set(o) == {"deadlock"}),
    ("semaphore(1): never two inside", semaphore_two, lambda o: set(o) == {"1"}, 2),
]


def main():
    bad = 0
    for case in CASES:
        name, body, ok = case[:3]
        bound = case[3] if len(case) > 3 else 99
        outcomes, n = explore(body, bound)
        good = ok(outcomes)
        print("%-62s %s  executions=%d outcomes=%s" % (name, "ok " if good else "BAD", n, outcomes))
        bad += 0 if good else 1
    return 1 if bad else 0


if __name__ == "__main__":
    sys.exit(main())
