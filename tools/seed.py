#!/venv/bin/python
"""Seeded property-breaking changes: import from a sub-agent's scratch worktree, verify, run checks.

  seed.py import <agent_seed_dir> <seed-id> <prop>     copy patch.diff/demo.py/notes.md to seeded/<seed-id>/
  seed.py verify <seed-id> [--checks C03,C06] [--tier quick]
        in a scratch worktree of /repo HEAD (outside /repo and /verif, removed afterwards):
          1. demo.py passes without the patch          2. patch applies
          3. the repository's test-suite still passes  4. demo.py fails with the patch
          5. each named check, pointed at the worktree with VERIF_REPO, exits 1 with a VIOLATION line
        and records all of it in seeded/<seed-id>/meta.json
"""
import argparse
import json
import os
import re
import shutil
import subprocess
import sys
import tempfile
import time

VERIF = os.path.dirname(os.path.dirname(os.path.abspath(__file__)))
PY = "/venv/bin/python"
KNOWN_FAIL = {"test/test_version_converter.py::TestVersionConverter::test_handle_include",
              "test/test_version_converter.py::TestVersionConverter::test_handle_repository"}


def sh(cmd, cwd=None, env=None, timeout=3600):
    e = dict(os.environ)
    e.update(env or {})
    p = subprocess.run(cmd, cwd=cwd, env=e, shell=isinstance(cmd, str), capture_output=True,
                       text=True, timeout=timeout)
    return p.returncode, p.stdout + p.stderr


def cmd_import(args):
    dst = os.path.join(VERIF, "seeded", args.seed)
    os.makedirs(dst, exist_ok=True)
    for f in ("patch.diff", "demo.py", "notes.md"):
        src = os.path.join(args.src, f)
        if os.path.exists(src):
            shutil.copy(src, os.path.join(dst, f))
    meta_p = os.path.join(dst, "meta.json")
    meta = json.load(open(meta_p)) if os.path.exists(meta_p) else {}
    meta.update({"seed": args.seed, "property": args.prop, "origin": "sub-agent in scratch worktree %s "
                 "(given only the property text)" % os.path.dirname(os.path.dirname(args.src.rstrip("/")))})
    json.dump(meta, open(meta_p, "w"), indent=1, sort_keys=True)
    print("imported", dst)


def run_tests(wt):
    tmp = tempfile.mkdtemp(prefix="seedtmp-", dir="/tmp")
    try:
        rc, out = sh([PY, "-m", "pytest", "-q", "-p", "no:cacheprovider", "--timeout=900", "test/"],
                     cwd=wt, env={"PYTHONPATH": wt, "TMPDIR": tmp, "PYTHONDONTWRITEBYTECODE": "1"})
    finally:
        shutil.rmtree(tmp, ignore_errors=True)
    failed = set(re.findall(r"^FAILED (\S+)", out, re.M))
    m = re.search(r"(\d+) passed", out)
    passed = int(m.group(1)) if m else 0
    return failed, passed, out[-600:]


def run_demo(wt, demo):
    tmp = tempfile.mkdtemp(prefix="seedtmp-", dir="/tmp")
    try:
        rc, out = sh([PY, demo], cwd=wt, env={"PYTHONPATH": wt, "TMPDIR": tmp, "PYTHONDONTWRITEBYTECODE": "1",
                                               "PYTHONHASHSEED": "0"}, timeout=600)
    finally:
        shutil.rmtree(tmp, ignore_errors=True)
    return rc, out[-800:]


def cmd_verify(args):
    d = os.path.join(VERIF, "seeded", args.seed)
    meta_p = os.path.join(d, "meta.json")
    meta = json.load(open(meta_p)) if os.path.exists(meta_p) else {"seed": args.seed}
    wt = tempfile.mkdtemp(prefix="seedwt-", dir="/tmp")
    os.rmdir(wt)
    rc, out = sh(["git", "-C", "/repo", "worktree", "add", "--detach", wt, "HEAD"])
    if rc:
        print(out)
        return 2
    res = {"repo_head": sh(["git", "-C", "/repo", "rev-parse", "--short", "HEAD"])[1].strip(),
           "verified_at": time.strftime("%Y-%m-%dT%H:%M:%S")}
    ok = True
    try:
        demo = os.path.join(d, "demo.py")
        if not args.skip_demo:
            rc0, out0 = run_demo(wt, demo)
            res["demo_without_patch_exit"] = rc0
            if rc0 != 0:
                print("demo FAILS on the unchanged tree:\n", out0)
                ok = False
        rc, out = sh(["git", "-C", wt, "apply", os.path.join(d, "patch.diff")])
        res["patch_applies"] = rc == 0
        if rc:
            print("patch does not apply:\n", out)
            return 1
        if not args.skip_tests:
            failed, passed, tail = run_tests(wt)
            res["tests_with_patch"] = {"passed": passed, "failed": sorted(failed)}
            if failed != KNOWN_FAIL or passed != 238:
                print("test-suite differs with the patch:", sorted(failed - KNOWN_FAIL), passed, tail)
                ok = False
        if not args.skip_demo:
            rc1, out1 = run_demo(wt, demo)
            res["demo_with_patch_exit"] = rc1
            res["demo_with_patch_tail"] = out1[-300:]
            if rc1 == 0:
                print("demo does NOT fail with the patch")
                ok = False
        checks = [c for c in (args.checks or meta.get("property", "")).split(",") if c]
        res.setdefault("checks", {})
        for c in checks:
            t0 = time.time()
            rc, out = sh([PY, os.path.join(VERIF, "run.py"), c, "--tier", args.tier], cwd=VERIF,
                         env={"VERIF_REPO": wt, "VERIF_EVIDENCE_DIR": os.path.join(wt, "_evidence"),
                              "VERIF_REPLAY_DIR": os.path.join(wt, "_replays")})
            viol = re.findall(r"^VIOLATION .*$", out, re.M)
            first = re.findall(r"^  # .*$", out, re.M)[:2]
            res["checks"]["%s:%s" % (c, args.tier)] = {"exit": rc, "violation_lines": len(viol),
                                                        "first": first, "wall_s": round(time.time() - t0, 1)}
            print("check %s (%s): exit %d, %d VIOLATION line(s) %s" % (c, args.tier, rc, len(viol), first[:1]))
            if rc == 2:
                print(out[-1500:])
    finally:
        sh(["git", "-C", "/repo", "worktree", "remove", "--force", wt])
        shutil.rmtree(wt, ignore_errors=True)
    meta.setdefault("runs", {}).update(res.pop("checks", {}))
    meta.update(res)
    meta["valid_seed"] = bool(ok)
    json.dump(meta, open(meta_p, "w"), indent=1, sort_keys=True)
    print("seed %s: %s" % (args.seed, "valid" if ok else "NOT VALID"))
    return 0 if ok else 1


def main():
    ap = argparse.ArgumentParser()
    sub = ap.add_subparsers(dest="cmd")
    a = sub.add_parser("import")
    a.add_argument("src")
    a.add_argument("seed")
    a.add_argument("prop")
    b = sub.add_parser("verify")
    b.add_argument("seed")
    b.add_argument("--checks")
    b.add_argument("--tier", default="quick")
    b.add_argument("--skip-tests", action="store_true")
    b.add_argument("--skip-demo", action="store_true")
    args = ap.parse_args()
    if args.cmd == "import":
        return cmd_import(args)
    return cmd_verify(args)


if __name__ == "__main__":
    sys.exit(main())
