#!/venv/bin/python
"""seeds_all.py: re-run the detection demonstration for every kept seed against the *current* checks:
patch applied in a scratch worktree of /repo HEAD, the property's quick check pointed at it must exit 1 with a
VIOLATION line.  Writes seeded/RESULTS.md."""
import json, os, re, subprocess, sys, tempfile, time, shutil
VERIF = os.path.dirname(os.path.dirname(os.path.abspath(__file__)))
seeds = sorted(d for d in os.listdir(os.path.join(VERIF, "seeded")) if re.match(r"C\d\d[a-z]$", d))
only = sys.argv[1:]
rows = []
head = subprocess.run(["git", "-C", "/repo", "rev-parse", "--short", "HEAD"], capture_output=True, text=True).stdout.strip()
for s in seeds:
    if only and s not in only and s[:3] not in only:
        continue
    d = os.path.join(VERIF, "seeded", s)
    prop = s[:3]
    wt = tempfile.mkdtemp(prefix="seedwt-", dir="/tmp"); os.rmdir(wt)
    subprocess.run(["git", "-C", "/repo", "worktree", "add", "--detach", wt, "HEAD"], capture_output=True)
    try:
        ap = subprocess.run(["git", "-C", wt, "apply", os.path.join(d, "patch.diff")], capture_output=True, text=True)
        if ap.returncode:
            rows.append((s, prop, "patch does not apply to %s" % head, "-", "-")); continue
        t0 = time.time()
        env = dict(os.environ, VERIF_REPO=wt, VERIF_EVIDENCE_DIR=os.path.join(wt, "_ev"), VERIF_REPLAY_DIR=os.path.join(wt, "_rp"))
        p = subprocess.run(["/venv/bin/python", os.path.join(VERIF, "run.py"), prop, "--tier", "quick"], cwd=VERIF, env=env,
                           capture_output=True, text=True, timeout=3600)
        viol = re.findall(r"^VIOLATION .*$", p.stdout, re.M)
        first = re.findall(r'^  # \S+ (\{.*?\}) ::', p.stdout, re.M)
        clause = ""
        if first:
            try:
                clause = json.loads(first[0]).get("clause", "")
            except Exception:
                clause = first[0][:60]
        rows.append((s, prop, "DETECTED" if p.returncode == 1 and viol else "MISSED (exit %d)" % p.returncode,
                     "%d" % len(viol), clause, "%.0fs" % (time.time() - t0)))
        print(rows[-1], flush=True)
    finally:
        subprocess.run(["git", "-C", "/repo", "worktree", "remove", "--force", wt], capture_output=True)
        shutil.rmtree(wt, ignore_errors=True)
with open(os.path.join(VERIF, "seeded", "RESULTS.md"), "w") as fh:
    fh.write("# Detection of the seeded changes by the current quick checks\n\n/repo HEAD %s, %s\n\n" % (head, time.strftime("%Y-%m-%d %H:%M")))
    fh.write("| seed | check | result | VIOLATION lines | first clause | time |\n|---|---|---|---|---|---|\n")
    for r in rows:
        fh.write("| " + " | ".join(str(x) for x in r) + " |\n")
missed = [r for r in rows if not r[2].startswith("DETECTED")]
print("%d seeds, %d not detected: %s" % (len(rows), len(missed), [r[0] for r in missed]))
sys.exit(1 if missed else 0)
