#!/venv/bin/python
"""selfcheck.py [Cxx ...]: every quick check twice in fresh processes under two VERIF_SEED values; the evidence counts
(states, transitions, evaluations, outcome histogram, violations) must be identical - VERIF_SEED rotates the order in
which work is handed out and seeds the deterministic uuid stream, it never changes what is explored.
Also cross-validates the evidence files against EVIDENCE.schema.json with jsonschema (tooling venv)."""
import json
import os
import shutil
import subprocess
import sys
import tempfile

VERIF = os.path.dirname(os.path.dirname(os.path.abspath(__file__)))
man = json.load(open(os.path.join(VERIF, "MANIFEST.json")))
ids = sys.argv[1:] or [c["property_id"] for c in man["checks"]]
bad = 0
for pid in ids:
    res = {}
    for seed in ("0", "3"):
        d = tempfile.mkdtemp(prefix="selfcheck-", dir="/dev/shm" if os.path.isdir("/dev/shm") else "/tmp")
        env = dict(os.environ, VERIF_SEED=seed, VERIF_EVIDENCE_DIR=d, VERIF_REPLAY_DIR=os.path.join(d, "replays"))
        p = subprocess.run(["/venv/bin/python", os.path.join(VERIF, "run.py"), pid, "--tier", "quick"], cwd=VERIF, env=env,
                           capture_output=True, text=True)
        ev = json.load(open(os.path.join(d, pid + ".json")))
        c = ev["coverage"]
        res[seed] = (p.returncode, c["states"], c["transitions"], c["evaluations"], c["distinct_nontrivial"],
                     json.dumps(c["outcome_histogram"], sort_keys=True), ev["violations"])
        v = subprocess.run(["python3-vt", "-c", "import json,jsonschema,sys; jsonschema.validate(json.load(open(sys.argv[1])), "
                            "json.load(open('/root/.vp/EVIDENCE.schema.json')))", os.path.join(d, pid + ".json")],
                           capture_output=True, text=True)
        if v.returncode:
            print("%s: evidence does not validate: %s" % (pid, v.stderr[-300:]))
            bad += 1
        shutil.rmtree(d, ignore_errors=True)
    same = res["0"] == res["3"]
    print("%s: %s  rc=%s states=%s transitions=%s" % (pid, "identical under seeds 0 and 3" if same else "DIFFERS", res["0"][0], res["0"][1], res["0"][2]))
    if not same:
        bad += 1
        for k, (a, b) in enumerate(zip(res["0"], res["3"])):
            if a != b:
                print("   field %d: %s  vs  %s" % (k, str(a)[:200], str(b)[:200]))
sys.exit(1 if bad else 0)
