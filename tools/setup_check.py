#!/venv/bin/python
"""MANIFEST.setup_cmd: nothing to build (pure Python, /repo is imported from its working tree).
Verifies offline that the interpreter and the libraries the checks rely on are present."""
import os
import sys

sys.path.insert(0, os.path.dirname(os.path.dirname(os.path.abspath(__file__))))
from mc import env  # noqa: E402

odml = env.import_repo()
import lxml.etree, yaml, rdflib  # noqa: E401,E402
for d in ("evidence", "replays"):
    os.makedirs(os.path.join(env.VERIF, d), exist_ok=True)
print("setup ok: python %s, odml from %s" % (sys.version.split()[0], os.path.dirname(odml.__file__)))
